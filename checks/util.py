# Checks for the shared-memory utilities: C30 (singletons), C25/C26 (signal registry, dumps/loads)
import json, os, random, multiprocessing as mp
from harness import common, tlc, dsched, utildrive
from checks.conc import ASSUME_B

KLASSES = ["K", "SignalSource", "ReturnStatusSource", "ActiveFabricSource", "SourceThreadEvent", "InstrumenationWriterClass"]


def _sg_work(args):
  k, n, bound, cap = args
  cnt, res = utildrive.singleton_explore(k, n, bound, cap)
  return [(k, n, bound, r) for r in res]


def _sg_stall_work(args):
  """random schedules in which a thread may be slow (held back while virtual time passes): a lock taken with a timeout, a wait with a
  timeout, a retry after a pause behave differently then"""
  k, n, count, seed = args
  out = []
  for i in range(count):
    rng = random.Random((seed << 16) ^ (i * 7919) ^ hash(k) % 1000)
    pol = dsched.StallPolicy(dsched.RandomPolicy(rng, rng.choice([0.0, 0.5, 0.8])), rng, p=rng.choice([0.05, 0.15, 0.3]), durations=(2, 3, 5), max_stalls=2)
    out.append((k, n, -1, utildrive.singleton_run(k, n, pol)))
  return out


def _sg_real_work(args):
  w, n, count, seed = args
  out = []
  for i in range(count):
    rng = random.Random((seed << 16) ^ (i * 104729) ^ sum(map(ord, w)) ^ n)
    pol = dsched.RandomPolicy(rng, rng.choice([0.0, 0.3, 0.6])) if i % 2 else dsched.PCTPolicy(rng, 3, 40)
    r = utildrive.real_singleton_run(w, n, dsched.FairSuffix(pol, 400))
    if not r.get("skipped"):
      out.append(("declared " + w, n, -2, r))
  return out


def trace_validate(module, records, cfg="SPECIFICATION TSpec\nCHECK_DEADLOCK FALSE\n"):
  path = os.path.join(common.work_dir(), module + "_%d.ndjson" % (id(records) % 10**7))
  with open(path, "w") as f:
    for r in records:
      f.write(json.dumps(r) + "\n")
  t = tlc.run(module + ".tla", cfg, workers="auto", env={"TRACE_FILE": path}, timeout=1800)
  os.unlink(path)
  if not t.ok:
    raise common.MachineryError("%s failed: %s %s" % (module, t.violated, t.error))
  v = {p["tid"]: p for p in t.printed if isinstance(p, dict) and "tid" in p}
  for r in records:
    if r["tid"] not in v:
      raise common.MachineryError("%s: trace %s not consumed" % (module, r["tid"]))
  return v, t


def _tlaps_proof(run, name, base, cfgs, claim):
  """a TLAPS proof that removes the bound of a TLC run: <name>Inv.tla states an inductive invariant of the protocol in <base>.tla and
  <name>Proof.tla proves that it is inductive and implies the properties.  TLC checks that the invariant holds on small instances (so
  the proof does not rest on an invariant that is false); tlapm re-checks the proof.  A missing prover, or obligations that the provers
  do not discharge within their time limits, are noted in the evidence and never fail the check."""
  import shutil, subprocess, re
  for cfg in cfgs:
    r = tlc.run(name + "Inv.tla", cfg + "INVARIANT Inv\n", workers=4, timeout=600)
    tlc.need_ok(r, name + "Inv")
    if r.violated:
      raise common.MachineryError("the inductive invariant of %sInv.tla is violated: %s" % (name, r.violated))
  small = "%sProof: Inv holds on the small instances (TLC)" % name
  exe = shutil.which("tlapm")
  if exe is None:
    run.add(tlc_runs=[small + "; tlapm not found, the proof was not re-checked in this run"])
    return
  wd = os.path.join(common.work_dir(), "tlaps_%s_%d" % (name, os.getpid()))
  os.makedirs(wd, exist_ok=True)
  for f in (base + ".tla", name + "Inv.tla", name + "Proof.tla"):
    shutil.copy(os.path.join(common.VERIF, "spec", f), wd)
  # the back-end provers work under wall-clock timeouts: on a busy machine an obligation can time out although it is provable, so the
  # timeouts are stretched, the run is repeated once with a larger factor, and obligations left unproved are NOTED (a proof that is not
  # re-established says nothing about the code; the TLC runs and the trace validation carry the verdict)
  text, proved = "", None
  for stretch in ("4", "12"):
    try:
      out = subprocess.run([exe, "--threads", "6", "--stretch", stretch, name + "Proof.tla"], cwd=wd, capture_output=True, text=True, timeout=1500)
      text = out.stdout + out.stderr
    except subprocess.TimeoutExpired:
      text = "tlapm timed out"
      break
    m = re.search(r"All (\d+) obligations? proved", text)
    if m:
      proved = int(m.group(1))
      break
  shutil.rmtree(os.path.join(wd, ".tlacache"), ignore_errors=True)
  if proved is not None:
    run.add(tlc_runs=["%sProof: TLAPS proved all %d obligations of %s (inductive invariant Inv, also checked by TLC on small instances)" % (
      name, proved, claim)], proof_obligations_proved=proved)
  else:
    m = re.search(r"(\d+)/(\d+) obligations? failed", text)
    why = ("%s of %s obligations were not proved within the provers' time limits" % (m.group(1), m.group(2))) if m else text[-160:].strip().replace("\n", " ")
    run.add(tlc_runs=[small + "; the TLAPS proof was not re-established in this run (%s)" % why])


def _singleton_proof(run):
  cfgs = ["SPECIFICATION Spec\nCONSTANTS Threads = {%s}\nVariant = \"locked\"\n" % ts for ts in ('"t1", "t2"', '"t1", "t2", "t3"')]
  _tlaps_proof(run, "Singleton", "Singleton", cfgs, "Spec => [](OneInstance /\\ SameForAll) for any set of threads")


def c30(tier):
  run = common.Run("C30", tier, "model_checking")
  run.assumptions += ASSUME_B + ["pre-emption points: every source line of miros/singleton.py, every read/write of the decorator's instance slot, "
                                 "the constructor, and lock operations",
                                 "two concurrent first requests are explored with at most 3 (quick) / 5 (thorough) pre-emptions, three with at most 2 / 3",
                                 "plus random schedules with slow threads: a thread may be held back for 2-5 units of virtual time, lock operations with a "
                                 "timeout give up at their deadline"]
  for threads in (['"t1"', '"t2"'], ['"t1"', '"t2"', '"t3"']):
    cfg = "SPECIFICATION Spec\nCONSTANTS Threads = {%s}\nVariant = \"locked\"\nINVARIANT OneInstance\nINVARIANT SameForAll\n" % ", ".join(threads)
    r = tlc.run("Singleton.tla", cfg, workers=4, timeout=600)
    tlc.need_ok(r, "Singleton")
    if r.violated:
      raise common.MachineryError("Singleton.tla (locked) violates %s" % r.violated)
    run.add(states=r.distinct, transitions=r.generated,
            tlc_runs=["Singleton %d threads, locked: %d distinct states (no deadlock); OneInstance, SameForAll hold" % (len(threads), r.distinct)])
  _singleton_proof(run)
  jobs = [(k, 2, 3 if tier == "quick" else 5, 2500 if tier == "quick" else 40000) for k in KLASSES] + \
         [(k, 3, 2 if tier == "quick" else 3, 1500 if tier == "quick" else 20000) for k in KLASSES]
  with mp.get_context("fork").Pool(12) as pool:
    allres = [x for part in pool.map(_sg_work, jobs) for x in part]
    allres += [x for part in pool.map(_sg_stall_work, [(k, n, 60 if tier == "quick" else 1500, common.seed()) for k in KLASSES for n in (2, 3)]) for x in part]
    # the library's own declarations of the five singletons, first requested by two or three threads at once
    allres += [x for part in pool.map(_sg_real_work, [(w, n, 30 if tier == "quick" else 600, common.seed()) for w in utildrive.REAL_SINGLETONS for n in (2, 3)]) for x in part]
  recs = [{"tid": i, "made": r["made"], "got": r["got"], "final": r["final"], "errors": r["errors"], "outcome": r["outcome"], "done": r["done"]}
          for i, (k, n, b, r) in enumerate(allres)]
  v, t = trace_validate("SingletonTrace", recs)
  for i, (k, n, b, r) in enumerate(allres):
    for c in v[i].get("bad", []):
      run.violation(c, "%s requested by %d threads: %d objects constructed, returned %s, stored %s (%s)" % (k, n, r["made"], r["got"], r["final"], c),
                    {"klass": k, "threads": n, "schedule": [c0[0] for c0 in r["choices"]], "ops": r["ops"], "result": {x: r[x] for x in ("made", "got", "final", "outcome")},
                     "errs": r["errs"]})
  run.add(traces_validated_against_impl=len(recs), evaluations=len(recs), states=t.distinct, transitions=t.generated,
          distinct_nontrivial=len({json.dumps([k, n, [c0[0] for c0 in r["choices"]]]) for k, n, b, r in allres}),
          two_thread_interleavings={k: sum(1 for kk, n, b, r in allres if kk == k and n == 2) for k in KLASSES},
          first_requests_of_the_declared_singletons=sum(1 for kk, n, b, r in allres if b == -2))
  run.sample({"klass": allres[0][0], "threads": allres[0][1], "ops": allres[0][3]["ops"], "got": allres[0][3]["got"]})
  # "for the life of the process": histories of fabric start / stop / clear / subscribe / publish calls (the real module-level singletons,
  # FabricTrace.tla clause NotSingle): after any of them every singleton still yields the object it yielded at first
  from checks import fab
  from harness import fabdrive
  n = 300 if tier == "quick" else 6000
  chunk = max(1, (n + 63) // 64)
  with mp.get_context("fork").Pool(16) as pool:
    fres = [x for part in pool.map(fab._work, [(common.seed(), lo, min(n, lo + chunk), "C30") for lo in range(0, n, chunk)]) for x in part]
  fv, ft = fabdrive.validate(fres)
  fby = dict(fres)
  for tid, v2 in fv.items():
    if v2.get("stuck"):
      raise common.MachineryError("fabric trace %d not consumed" % tid)
    if "NotSingle" in v2.get("bad", []):
      r = fby[tid]
      ev = r["events"][v2["at"] - 1]
      run.violation("NotSingle", "after the fabric history %s the singleton(s) %s no longer yield the instance they yielded at first" % (
        json.dumps(r["scen"]["main"]), ev[1]), {"scenario": r["scen"], "schedule": r["schedule"], "verdict": v2, "events": r["events"]})
  run.add(fabric_histories_checked_for_singleness=len(fres), states=ft.distinct, transitions=ft.generated)
  return run.finish()


# ------------------------------------------------------------------ C25
REG_OPS = ["append", "attr", "ev_name", "ev_num", "name_for", "inner", "attr", "ev_name"]
REG_NAMES = ["NA", "NB", "NC", "ND", "ENTRY_SIGNAL", "SEARCH_FOR_SUPER_SIGNAL",
             "update", "items", "highest_inner_signal"]   # names that are also attributes of the registry object (never used through attribute access)


def _reg_work(args):
  seed, lo, hi = args
  out = []
  for tid in range(lo, hi):
    rng = random.Random((seed << 21) ^ (tid * 2654435761 % (1 << 32)))
    nt = rng.choice([1, 2, 2, 3])
    progs = {t: [[rng.choice(REG_OPS), rng.choice(REG_NAMES)] for _ in range(rng.randint(2, 5) if nt > 1 else rng.randint(4, 10))]
             for t in ("t1", "t2", "t3")[:nt]}
    pol = dsched.RandomPolicy(rng, rng.choice([0.0, 0.5, 0.8])) if tid % 2 else dsched.PCTPolicy(rng, 3, 60)
    r = utildrive.registry_run(progs, dsched.FairSuffix(pol, 800))
    r["tid"], r["progs"] = tid, progs
    out.append(r)
  return out


def _reg_explore(args):
  a, b = args
  results = []

  def execute(prefix):
    r = utildrive.registry_run({"t1": [a], "t2": [b]}, dsched.ReplayPolicy(prefix, fallback=dsched.NoPreemptPolicy()))
    r["progs"] = {"t1": [a], "t2": [b]}
    results.append(r)
    return r["choices"]
  dsched.explore_pb(execute, 3, 400)
  return results


def c25(tier):
  run = common.Run("C25", tier, "model_checking")
  run.assumptions += ASSUME_B + ["pre-emption points: every source line of miros/event.py, every dictionary operation of the registry (membership, len, get, set) and between the "
                                 "elements of a Python-level loop over a view; a view consumed by C code (list(), `in`) is one atomic operation",
                                 "names are identifier-shaped; a name that is an attribute of the registry object itself (update, items, ..) is only used "
                                 "through Event / append / name_for_signal, never through attribute access"]
  cfg = ("SPECIFICATION Spec\nCONSTANTS Threads = {\"t1\", \"t2\"}\nProg <- ProgDef\nVariant = \"locked\"\nBuiltins = 10\n"
         "INVARIANT Injective\nINVARIANT Positive\nINVARIANT Stable\nINVARIANT SeenInjective\n")
  r = tlc.run("Signals.tla", cfg, workers=4, timeout=600)
  tlc.need_ok(r, "Signals")
  if r.violated:
    raise common.MachineryError("Signals.tla (locked) violates %s" % r.violated)
  run.add(states=r.distinct, transitions=r.generated, tlc_runs=["Signals 2 threads x 2 names, locked: %d distinct states (deadlock-free); Injective, Positive, Stable hold" % r.distinct])
  _tlaps_proof(run, "Signals", "Signals", ["SPECIFICATION Spec\nCONSTANTS Threads = {\"t1\", \"t2\"}\nProg <- ProgDef\nVariant = \"locked\"\nBuiltins = 10\n"],
               "Spec => [](Injective /\\ Positive /\\ Stable /\\ SeenInjective) for any set of threads, any programs of registrations and any number of built-ins")
  n = 2000 if tier == "quick" else 40000
  chunk = max(1, (n + 63) // 64)
  pairs = [([o1, n1], [o2, n2]) for o1 in ("append", "attr", "ev_name") for o2 in ("append", "attr", "ev_name", "ev_num", "name_for")
           for n1, n2 in (("NA", "NB"), ("NA", "NA"))]
  with mp.get_context("fork").Pool(16) as pool:
    recs = [x for part in pool.map(_reg_work, [(common.seed(), lo, min(n, lo + chunk)) for lo in range(0, n, chunk)]) for x in part]
    sysr = [x for part in pool.map(_reg_explore, pairs) for x in part]
  for i, r in enumerate(sysr):
    r["tid"] = n + i
  recs += sysr
  v, t = trace_validate("SignalsTrace", [{k: r[k] for k in ("tid", "ev", "final", "outcome", "done", "errors")} for r in recs])
  for r in recs:
    for c in v[r["tid"]].get("bad", []):
      run.violation(c, "registry execution %d rejected at %d: %s; progs=%s" % (r["tid"], v[r["tid"]]["at"], c, json.dumps(r["progs"])),
                    {"progs": r["progs"], "schedule": r["schedule"], "events": r["ev"], "final": r["final"][10:], "errs": r["errs"], "verdict": v[r["tid"]]})
  run.add(traces_validated_against_impl=len(recs), evaluations=len(recs), states=t.distinct, transitions=t.generated,
          distinct_nontrivial=len({json.dumps([r["progs"], r["schedule"]]) for r in recs}), systematic_two_op_executions=len(sysr))
  run.sample({"progs": recs[0]["progs"], "events": recs[0]["ev"], "registry_after": recs[0]["final"][10:]})
  return run.finish()


# ------------------------------------------------------------------ C26
def _payload(rng, depth=0):
  k = rng.randrange(8 if depth < 3 else 5)
  if k == 0:
    return None
  if k == 1:
    return rng.random() < 0.5
  if k == 2:
    return rng.choice([0, 1, -1, 2**31, -2**53, 10**18, rng.randint(-10**6, 10**6)])
  if k == 3:
    return rng.choice([0.0, -0.0, 1.5, 1e-9, 1e300, rng.uniform(-1e6, 1e6)])
  if k == 4:
    return "".join(rng.choice(["a", "B", " ", "\"", "\\", "\n", "é", "中", "\U0001F600", "/", "\t", "0"]) for _ in range(rng.randint(0, 8)))
  if k in (5, 6):
    return [_payload(rng, depth + 1) for _ in range(rng.randint(0, 4))]
  if rng.random() < 0.3:
    # a payload that looks like (part of) a serialized event itself - e.g. an event forwarded inside another one
    d = {}
    for key in rng.sample(["signal_name", "payload", "signal", "name", "event"], rng.randint(1, 3)):
      d[key] = rng.choice(["RT_inner", "ENTRY_SIGNAL", 3, ["x"], None]) if key in ("signal_name", "signal") and rng.random() < 0.7 else _payload(rng, depth + 1)
    return d
  return {"".join(rng.choice("abk_ é\"") for _ in range(rng.randint(0, 4))): _payload(rng, depth + 1) for _ in range(rng.randint(0, 4))}


def _canon(x):
  return json.dumps(x, sort_keys=True, ensure_ascii=True, allow_nan=False).encode().hex()


def _rt_work(args):
  import miros.event as mev
  seed, lo, hi = args
  out = []
  for tid in range(lo, hi):
    rng = random.Random((seed << 21) ^ (tid * 2654435761 % (1 << 32)))
    old = mev.signals
    fresh = mev.SignalSource()
    mev.signals = fresh
    try:
      known = [[k, v] for k, v in fresh.items()]
      evs = []
      names = ["RT_%s%d" % (rng.choice("abcXYZ_"), rng.randrange(6)) for _ in range(4)] + ["ENTRY_SIGNAL", "A1"]
      # "any signal name": also names that happen to be attributes of the registry object itself, and names that are not identifiers
      names += rng.sample(["update", "clear", "items", "append", "keys", "pop", "highest_inner_signal", "name_for_signal", "two words", "x-y"], 3)
      for _ in range(rng.randint(2, 8)):
        name = rng.choice(names)
        pay = _payload(rng)
        rec = [name, "", 0, _canon(pay), "", "ok"]
        try:
          other = mev.SignalSource()       # the event is made in "another process": its own registry
          mev.signals = other
          text = mev.Event.dumps(mev.Event(signal=name, payload=pay))
          mev.signals = fresh
          e2 = mev.Event.loads(text)
          rec[1], rec[2], rec[4] = e2.signal_name, e2.signal, _canon(e2.payload)
        except Exception as ex:  # noqa
          mev.signals = fresh
          rec[5] = "raised:" + type(ex).__name__
        evs.append(rec)
      out.append({"tid": tid, "ev": evs, "known": known, "size": len(known)})
    finally:
      mev.signals = old
  return out


def c26(tier):
  run = common.Run("C26", tier, "other")
  run.assumptions += ["payloads are JSON-representable (None, booleans, finite numbers, strings, lists, string-keyed dicts); equality of payloads is "
                      "equality of their canonical JSON text (sorted keys), compared by TLC on the logged texts",
                      "the sending side has its own registry (another process): numbers are never carried over, only names",
                      "signal names include names of the registry object's own attributes (update, items, append, ..) and non-identifiers"]
  n = 3000 if tier == "quick" else 60000
  chunk = max(1, (n + 63) // 64)
  with mp.get_context("fork").Pool(16) as pool:
    recs = [x for part in pool.map(_rt_work, [(common.seed(), lo, min(n, lo + chunk)) for lo in range(0, n, chunk)]) for x in part]
  v, t = trace_validate("RoundTripTrace", recs)
  for r in recs:
    for c in v[r["tid"]].get("bad", []):
      run.violation(c, "round trip %d event %d: %s %s" % (r["tid"], v[r["tid"]]["at"], c, v[r["tid"]].get("ev")), {"events": r["ev"], "verdict": v[r["tid"]]})
  nev = sum(len(r["ev"]) for r in recs)
  run.add(evaluations=nev, distinct_nontrivial=len({json.dumps(e[:1] + e[3:4]) for r in recs for e in r["ev"]}), traces_validated_against_impl=len(recs),
          states=t.distinct, transitions=t.generated,
          explanation="Registry half (same name; number = this process's binding, registering if new) decided by the TLA+ registry model in "
                      "RoundTripTrace.tla over recorded loads(dumps(e)) calls; payload half is an equality of canonical JSON texts evaluated by TLC. "
                      "Encode/decode fidelity itself is outside what a state-machine specification adds (DESIGN 7).")
  run.sample({"event": recs[0]["ev"][0]})
  return run.finish()


# ------------------------------------------------------------------ C32
def c32(tier):
  from harness import textdrive
  run = common.Run("C32", tier, "other")
  run.assumptions += ["chart, state and signal names are single-line; a single-line input has no trailing whitespace; a text without any record is not a trace",
                      "timestamps have miros' format %Y-%m-%d %H:%M:%S.%f"]
  res = textdrive.run(2 if tier == "quick" else 3, common.seed(), 200000)
  for f in res["fails"]:
    run.violation("stripped-" + f["kind"], "stripped() disagrees with the token-level definition: %s" % json.dumps(f)[:300], f)
  run.add(evaluations=res["rendered"] + res["pairs"], distinct_nontrivial=res["rendered"], universe_texts=res["universe"], pairs_compared=res["pairs"],
          states=max(1, res["tlc"].distinct), transitions=max(1, res["tlc"].generated),
          explanation="TraceText.tla defines trace texts as token sequences, Norm, the elementary edits (timestamp, blank line, surrounding whitespace) and "
                      "proves by evaluation over the universe of short texts that 'equal Norm' and 'related by edits' coincide (EditsPreserveNorm, CanonByEdits, "
                      "CanonUnique). TLC exports the universe with Norm; every text is rendered with real record bodies printed by miros' trace() and real "
                      "timestamps and fed to the real stripped(); results are compared with Norm and pairwise. A pure function: the specification contributes "
                      "the definition of the equivalence and the enumeration, not state-space depth (DESIGN 7).")
  for s in res["samples"]:
    run.sample(s)
  return run.finish()
