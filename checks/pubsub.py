# C07 / C09: active-object publish/subscribe in every configuration (PubSubTrace.tla + harness/sysdrive.py)
import json, os, random, multiprocessing as mp
from harness import common, tlc, dsched, sysdrive, syscheck
from checks.conc import ASSUME_B


def gen(rng):
  n = rng.randint(2, 3)
  names = ["a%d" % i for i in range(1, n + 1)]
  aos, pre, post1, post2 = [], [], [], []
  for nm in names:
    spied = rng.random() < 0.5
    spec = {"name": nm, "spied": spied, "instrumented": True if spied or rng.random() < 0.5 else False, "handler_ops": {}}
    kind = rng.choice(["fifo", "lifo", "default"])
    how = rng.choice(["pre", "post", "handler", "none", "both"])
    if how in ("pre", "both"):
      pre.append(["sub", nm, "A", kind])
    if how in ("post", "both"):
      post1.append(["sub", nm, "A", rng.choice(["fifo", "lifo"]) if how == "both" else kind])
    if how == "handler":
      spec["handler_ops"]["C"] = [["sub", nm, "A", kind]]
      post1.append(["post", nm, "fifo", "C"])
    if rng.random() < 0.3:
      post1.append(["sub", nm, "B", rng.choice(["fifo", "lifo"])])
    aos.append(spec)
  pubs = []
  for _ in range(rng.randint(1, 4)):
    nm = rng.choice(names)
    sig = rng.choice(["A", "A", "B"])
    if rng.random() < 0.3:
      spec = [s for s in aos if s["name"] == nm][0]
      spec["handler_ops"].setdefault("B" if sig == "A" else "C", []).append(["pub", nm, sig, rng.choice([1, 2, 1000])])
      if sig == "A":
        pubs.append(["post", nm, "fifo", "B"])
    else:
      pubs.append(["pub", nm, sig, rng.choice([1, 2, 1000])])
  if rng.random() < 0.3:
    pre.append(["pub", rng.choice(names), "A", 1])       # published before start: goes out once the publisher runs
  if rng.random() < 0.5:
    # a backlog in a subscriber's queue while publications are delivered: its handler for C takes one time unit,
    # meanwhile two plain posts and the publications arrive (front/back of the queue become distinguishable)
    nm = rng.choice(names)
    spec = [s for s in aos if s["name"] == nm][0]
    spec["handler_ops"].setdefault("C", []).append(["sleep", 1])
    pubs = [["post", nm, "fifo", "C"], ["post", nm, "fifo", "B"], ["post", nm, "fifo", "B"]] + pubs
  starts = [["start", nm] for nm in names]
  rng.shuffle(starts)
  rng.shuffle(post1)
  main = pre + starts + post1 + [["settle"]] + pubs + [["settle"]]
  drivers = {"d1": main}
  if rng.random() < 0.4:
    drivers["d2"] = [["settle"], ["pub", rng.choice(names), "A", 1], ["post", rng.choice(names), "fifo", "A"]]
  if n >= 2 and rng.random() < 0.3:
    # one subscriber is stopped while publications are on their way: the others are still owed every publication
    # (the stopper waits one time unit rather than for the system to settle: a delivery thread that is being slow must not hold it up)
    victim = rng.choice(names[:2])
    drivers["d1"] = drivers["d1"][:-1] + [["pub", rng.choice(names), "A", 1], ["pub", rng.choice(names), "A", 1], ["settle"]]
    direct = sum(1 for o in drivers["d1"] if o[0] == "pub")
    drivers["d3"] = [["wait_started", victim], ["wait_pubs", rng.randint(1, direct)], ["sleep", 1], ["stop", victim]]
  cfg = {"cap": 30, "aos": aos, "drivers": drivers}
  if rng.random() < 0.5:
    # the fabric's registries are plain dicts and lists: pre-empt between the source lines of subscribe()
    cfg["trace_funcs"] = [["activeobject.py", "subscribe"], ["activeobject.py", "_subscribe"], ["activeobject.py", "subscribed"]]
  return cfg


def _work(args):
  seed, lo, hi = args
  out = []
  for tid in range(lo, hi):
    rng = random.Random((seed << 21) ^ (tid * 2654435761 % (1 << 32)))
    cfg = gen(rng)
    pol = dsched.RandomPolicy(rng, stick=rng.choice([0.0, 0.5, 0.8])) if tid % 2 else dsched.PCTPolicy(rng, 3, 120)
    if rng.random() < 0.35:
      # a slow thread: a delivery thread (or an object's thread) is held back in the middle of what it is doing until everyone else
      # has run as far as they can - e.g. a delivery loop that has served one subscriber and not yet the next
      pol = dsched.StallPolicy(pol, rng, p=rng.choice([0.03, 0.08, 0.2]), durations=(2, 3), max_stalls=rng.randint(1, 3),
                               only=rng.choice([("fab_",), ("fab_", "ao_"), None]))
    r = sysdrive.run_one(cfg, dsched.FairSuffix(pol, 1500), 4000)
    r["cfg"] = cfg
    out.append((tid, r))
  return out


CLAUSE_PROP = {"WrongEnd": "C09"}


def check(prop):
  def run_check(tier):
    run = common.Run(prop, tier, "model_checking")
    run.assumptions += ASSUME_B + ["a subscription is owed the publications made after the system settled (no runnable thread) following "
                                   "the return of subscribe() and of the subscriber's start_at(); racing publications may arrive or not"]
    n = 1200 if tier == "quick" else 20000
    chunk = max(1, (n + 63) // 64)
    with mp.get_context("fork").Pool(16) as pool:
      results = [x for part in pool.map(_work, [(common.seed(), lo, min(n, lo + chunk)) for lo in range(0, n, chunk)]) for x in part]
    path = os.path.join(common.work_dir(), "pubsub.ndjson")
    with open(path, "w") as f:
      for tid, r in results:
        f.write(json.dumps({"tid": tid, "ev": r["ev"], "end": {"outcome": r["outcome"], "drivers_done": r["drivers_done"]}}) + "\n")
    t = tlc.run("PubSubTrace.tla", "SPECIFICATION TSpec\nCHECK_DEADLOCK FALSE\n", workers="auto", env={"TRACE_FILE": path}, timeout=1800)
    os.unlink(path)
    if not t.ok:
      raise common.MachineryError("PubSubTrace failed: %s %s" % (t.violated, t.error))
    v = {p["tid"]: p for p in t.printed if isinstance(p, dict) and "tid" in p}
    by = dict(results)
    others = {}
    owed_total = 0
    for tid, r in results:
      x = v.get(tid)
      if x is None:
        raise common.MachineryError("pubsub trace %d not consumed: %s" % (tid, json.dumps(r["ev"])[:1500]))
      owed_total += x.get("owed", 0)
      for c in x.get("bad", []):
        p = CLAUSE_PROP.get(c, "C07")
        if c == "Missing" and prop == "C09" and any(len(m) >= 3 and m[2] == "lifo" for m in (x.get("missing") or [])):
          p = "C09"      # a publication owed through a 'lifo' subscription never reached the front of the queue (it was not delivered that way at all)
        if p == prop:
          run.violation(c, "execution %d rejected at event %d: %s %s; config=%s" % (tid, x["at"], c, x.get("missing", ""), json.dumps(
            [[a["name"], a["spied"], a["instrumented"]] for a in r["cfg"]["aos"]])),
            {"cfg": r["cfg"], "schedule": r["schedule"], "verdict": x, "events": r["ev"], "outcome": r["outcome"], "errors": r["errors"][:1]})
        else:
          others[p] = others.get(p, 0) + 1
    # the same executions against System.tla at the level of the objects' queues: a delivery through a lifo subscription lands at
    # the front, through a fifo subscription at the back (C09); what the chart is handed is what its thread took from the front
    sv, st = syscheck.validate(results, 30)
    for p2, k in syscheck.file_violations(run, prop, results, sv).items():
      others[p2] = others.get(p2, 0) + k
    run.add(system_level_states=st.distinct, system_level_dispatches=sum(sum(x.get("dispatched", {}).values()) for x in sv.values()))
    configs = {json.dumps([[a["spied"], a["instrumented"], sorted(a["handler_ops"])] for a in r["cfg"]["aos"]]) for _, r in results}
    run.add(traces_validated_against_impl=len(results), evaluations=len(results), states=t.distinct, transitions=t.generated,
            distinct_nontrivial=len({json.dumps([r["cfg"], r["schedule"]]) for _, r in results}), deliveries_owed=owed_total,
            distinct_configurations=len(configs), events_validated=sum(len(r["ev"]) for _, r in results))
    if others:
      run.add(rejections_attributed_to_other_properties=others)
    run.sample({"cfg": results[0][1]["cfg"], "events": results[0][1]["ev"][:20]})
    return run.finish()
  return run_check


c07 = check("C07")
c09 = check("C09")
