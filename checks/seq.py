# Checks for the sequential layer (Harness A + Hsm.tla / HsmAlgo.tla / HsmTrace.tla).
import concurrent.futures as cf
from harness import common, tlc, gen, seqcheck, algoconf

MC_INV = ["QueuesBounded", "AtMostOnce", "QueueIdsDistinct", "DeferredNotDispatched", "TraceEndsInCur",
          "RingsBounded", "RestsInLeafOfInit"]
MC_PROP = ["WellNested", "NoActionUnlessTran", "DispatchedWasFront", "QueriesPure"]


def mc_cfg(n, nsigs, cap, depth, host="queued"):
  s = "SPECIFICATION MCSpec\nCONSTANTS N = %d\nNSigs = %d\nCap = %d\nDepth = %d\nHost = \"%s\"\nCONSTRAINT Bound\n" % (
    n, nsigs, cap, depth, host)
  s += "".join("INVARIANT %s\n" % i for i in MC_INV) + "".join("PROPERTY %s\n" % p for p in MC_PROP)
  return s + "CHECK_DEADLOCK FALSE\n"


def model_check_hsm(run, tier, workers=8):
  """TLC on the reference semantics: all charts of N states x short histories, and one-state charts x long histories"""
  configs = [(3, 1, 2, 2), (1, 1, 2, 5)] if tier == "quick" else [(3, 1, 2, 4), (2, 2, 2, 3), (1, 1, 2, 7)]
  with cf.ThreadPoolExecutor(3) as ex:
    futs = [(c, ex.submit(tlc.run, "HsmMC.tla", mc_cfg(*c), workers, None, (), 6000)) for c in configs]
    for (n, nsigs, cap, depth), f in futs:
      r = f.result()
      tlc.need_ok(r, "HsmMC")
      if r.violated:
        raise common.MachineryError("reference semantics Hsm.tla violates its own invariant %s" % r.violated)
      run.add(states=r.distinct, transitions=r.generated)
      run.add(tlc_runs=["HsmMC N=%d sigs=%d cap=%d depth=%d: %d distinct states, invariants %s, action properties %s hold" % (
        n, nsigs, cap, depth, r.distinct, ",".join(MC_INV), ",".join(MC_PROP))])


def model_check_algo(run, tier, mode, workers=8):
  """TLC on the transcription of dispatch/trans_/init against the reference semantics,
  then bind the transcription to the code (call-for-call) on behaviours TLC generates."""
  configs = [(5, 5), (9, 0)] if tier == "quick" else [(6, 6), (10, 1), (12, 0)]
  if mode == "start":
    configs = [(6, 6), (10, 1)] if tier == "quick" else [(7, 7), (12, 2)]
  with cf.ThreadPoolExecutor(4) as ex:
    futs = [(n, b, ex.submit(tlc.run, "HsmAlgo.tla", algoconf.cfg(n, b, True, mode), workers, None, (), 3000)) for n, b in configs]
    sim = ex.submit(algoconf.run, 10 if tier == "quick" else 12, 2, True, mode, 400 if tier == "quick" else 4000, 400,
                    common.seed() + 1)
    for n, b, f in futs:
      r = f.result()
      tlc.need_ok(r, "HsmAlgo")
      if r.violated:
        run.add(tlc_runs=["HsmAlgo N=%d branch<=%d mode=%s: %s VIOLATED by the transcription with the repaired bookkeeping" % (n, b, mode, r.violated)])
        raise common.MachineryError("HsmAlgo (transcription) violates %s at N=%d: the transcription or the reference is wrong" % (r.violated, n))
      run.add(states=r.distinct, transitions=r.generated)
      run.add(tlc_runs=["HsmAlgo N=%d branch<=%d mode=%s: %d distinct states, Conform/NeverRaises/Bounded hold" % (n, b, mode, r.distinct)])
    a = sim.result()
  run.add(algo_behaviours_replayed=a["behaviours"], algo_behaviours_call_for_call_equal=a["agree"])
  if a["violated"]:
    raise common.MachineryError("HsmAlgo simulation violated %s" % a["violated"])
  if a["behaviours"] and a["agree"] < a["behaviours"]:
    run.notes.append("transcription drift: %d of %d TLC-generated behaviours of HsmAlgo differ call-for-call from the code; "
                     "the TLC result on HsmAlgo is not claimed for this tree (verdict comes from trace validation). first: %s"
                     % (a["behaviours"] - a["agree"], a["behaviours"], str(a["first"])[:600]))
  return a


def has_tran(t):
  return any(any(c[0] == "EXIT_SIGNAL" or c[0] == "ENTRY_SIGNAL" for c in e["log"]) for e in t["ev"][1:])


ASSUME_SEQ = [
  "well-formed charts: handlers answer ENTRY/EXIT with HANDLED or fall through to SUPER+parent; init targets are proper descendants",
  "the independent call log kept by the generated state functions is the observation; miros' own spy is never the oracle (except for C19-C21 where it is the subject)",
  "trace validation stops a trace at its first rejected op",
]


def c01(tier):
  run = common.Run("C01", tier, "model_checking")
  run.assumptions += ASSUME_SEQ
  n = 2500 if tier == "quick" else 20000
  P = gen.profile(nmin=3, nmax=14, deep=0.85, p_init=0.5, w_none=40, w_unh=5, w_hook=5, w_tran=50, live=0.0,
                  clocks=("fine",), hosts=(("queued", 5), ("instr", 2), ("plain", 3)), p_spied=0.6, p_eff=0.1,
                  nops=(3, 10), w_ops=dict(step=60, dispatch=30, post=3, defer=0, recall=0, is_in=3, child=2, scribble=0,
                                           clear_spy=0, clear_trace=0, empty_rtc=0))
  with cf.ThreadPoolExecutor(2) as ex:
    f = ex.submit(model_check_algo, run, tier, "dispatch")
    seqcheck.run(run, "C01", n, P, is_nontrivial=has_tran)
    f.result()
  return run.finish()


def c02(tier):
  run = common.Run("C02", tier, "model_checking")
  run.assumptions += ASSUME_SEQ
  n = 2500 if tier == "quick" else 20000
  P = gen.profile(nmin=1, nmax=12, deep=0.7, w_none=45, w_unh=20, w_hook=20, w_tran=15, w_null=8, live=0.0, clocks=("fine",),
                  hosts=(("queued", 5), ("instr", 2), ("plain", 3)), p_spied=0.6, p_eff=0.1,
                  w_ops=dict(step=60, dispatch=30, post=3, defer=0, recall=0, is_in=3, child=2, scribble=0,
                             clear_spy=0, clear_trace=0, empty_rtc=0))
  with cf.ThreadPoolExecutor(2) as ex:
    f = ex.submit(model_check_hsm, run, tier)
    seqcheck.run(run, "C02", n, P)
    f.result()
  return run.finish()


def c03(tier):
  run = common.Run("C03", tier, "model_checking")
  run.assumptions += ASSUME_SEQ
  n = 3000 if tier == "quick" else 20000
  P = gen.profile(nmin=1, nmax=14, deep=0.8, p_init=0.7, live=0.0, clocks=("fine",), p_eff=0.15, p_restart=0.25,
                  hosts=(("queued", 4), ("instr", 3), ("plain", 3)), p_spied=0.6, nops=(0, 3),
                  w_ops=dict(step=50, dispatch=30, post=0, defer=0, recall=0, is_in=10, child=10, scribble=0,
                             clear_spy=0, clear_trace=0, empty_rtc=0))
  with cf.ThreadPoolExecutor(2) as ex:
    f = ex.submit(model_check_algo, run, tier, "start")
    seqcheck.run(run, "C03", n, P)
    f.result()
  return run.finish()


def _simple(prop, P, nq, nt, mc=True):
  def check(tier, finish=True):
    run = common.Run(prop, tier, "model_checking")
    run.assumptions += ASSUME_SEQ
    with cf.ThreadPoolExecutor(2) as ex:
      f = ex.submit(model_check_hsm, run, tier) if mc else None
      seqcheck.run(run, prop, nq if tier == "quick" else nt, P)
      if f:
        f.result()
    return run.finish() if finish else run
  return check


QOPS = dict(step=40, dispatch=0, post=25, defer=10, recall=10, is_in=2, child=1, scribble=3, clear_spy=1, clear_trace=1, empty_rtc=8)
c14 = _simple("C14", gen.profile(hosts=(("queued", 1),), p_eff=0.5, live=0.0, clocks=("fine",), nops=(6, 16), w_ops=dict(QOPS, circuit=10),
                                 caps=(2, 3, 500), p_fault=0.15), 2500, 20000)
_c15_ids = _simple("C15", gen.profile(hosts=(("queued", 1),), p_eff=0.5, live=0.0, clocks=("fine",), nops=(6, 16),
                                      w_ops=dict(QOPS, defer=25, recall=25), caps=(2, 3, 500), p_fault=0.1), 2500, 20000)


def defer_instances(run, n):
  """the same Event OBJECTS deferred / posted again and again (DeferInstTrace.tla): Hsm.tla gives every deferral an event of its own"""
  import json, os
  import multiprocessing as mp
  from harness import deferinst, tlc
  chunk = (n + 31) // 32
  with mp.get_context("fork").Pool(8) as pool:
    traces = [t for part in pool.map(deferinst.work, [(common.seed(), lo, min(n, lo + chunk)) for lo in range(0, n, chunk)]) for t in part]
  path = os.path.join(common.work_dir(), "deferinst.ndjson")
  with open(path, "w") as f:
    for t in traces:
      f.write(json.dumps(t) + "\n")
  r = tlc.run("DeferInstTrace.tla", "SPECIFICATION TSpec\nINVARIANT Conserved\nCHECK_DEADLOCK FALSE\n", workers="auto", env={"TRACE_FILE": path}, timeout=1800)
  os.unlink(path)
  if not r.ok or r.violated:
    raise common.MachineryError("DeferInstTrace failed: %s %s" % (r.violated, r.error))
  v = {p["tid"]: p for p in r.printed if isinstance(p, dict) and "tid" in p}
  for t in traces:
    x = v.get(t["tid"])
    if x is None:
      raise common.MachineryError("defer/recall instance sequence %d not consumed by DeferInstTrace" % t["tid"])
    if "bad" in x:
      op = t["ops"][x["at"] - 1]
      run.violation("inst:%s@%s" % ("+".join(sorted(x["bad"])), op[0]),
                    "defer/recall with re-used Event objects, op %d %s: %s" % (x["at"], op, x["bad"]), {"instances": True, "ops": t["ops"], "verdict": x})
  run.add(states=r.distinct, transitions=r.generated, instance_level_sequences_validated=len(traces),
          instance_level_ops_validated=sum(len(t["ops"]) for t in traces),
          instance_level_distinct=len({json.dumps([o[:2] for o in t["ops"]]) for t in traces}))


def c15(tier):
  run = _c15_ids(tier, finish=False)
  defer_instances(run, 3000 if tier == "quick" else 40000)
  return run.finish()
c19 = _simple("C19", gen.profile(hosts=(("queued", 6), ("instr", 2)), p_spied=1.0, p_eff=0.5, live=0.0, clocks=("fine",),
                                 nops=(4, 14), w_ops=dict(QOPS, dispatch=8, scribble=8, is_in=5, child=3)), 2500, 20000)
c20 = _simple("C20", gen.profile(hosts=(("queued", 6), ("instr", 2)), p_spied=1.0, p_eff=0.3, live=0.0, clocks=("fine",),
                                 nops=(4, 14), w_tran=30, w_hook=25, w_ops=dict(QOPS, dispatch=8)), 2500, 20000)
_c21_seq = _simple("C21", gen.profile(hosts=(("queued", 1),), p_spied=1.0, p_eff=0.3, live=1.0,
                                      clocks=("fine", "const", "coarse", "back"), nops=(4, 14), w_ops=dict(QOPS, dispatch=0)), 2500, 20000)


def c21(tier):
  """queued charts under every clock (Hsm.tla's live-output model), then the active-object host: live spy and live trace go through
  the writer thread while posters, the object's thread and the writer are interleaved by the scheduler (AOTrace.tla LiveSpy/LiveTrace)"""
  run = common.Run("C21", tier, "model_checking")
  run.assumptions += ASSUME_SEQ + ["active-object host: the lines judged are the handler-call lines of the live spy and the live trace records; markers "
                                   "of posts made by other threads while a step runs are not lines produced by that step"]
  P = gen.profile(hosts=(("queued", 1),), p_spied=1.0, p_eff=0.3, live=1.0, clocks=("fine", "const", "coarse", "back"), nops=(4, 14),
                  w_ops=dict(QOPS, dispatch=0))
  with cf.ThreadPoolExecutor(2) as ex:
    f = ex.submit(model_check_hsm, run, tier)
    seqcheck.run(run, "C21", 2500 if tier == "quick" else 20000, P)
    f.result()
  from harness import aocheck
  results = aocheck.run_batch(400 if tier == "quick" else 8000, kinds=("random", "pct"), caps=(5, 8), force="c21")
  verdicts, st, trn = aocheck.validate_all(results)
  by = dict(results)
  lines = recs = 0
  for tid, v in verdicts.items():
    if v.get("stuck"):
      raise common.MachineryError("AO trace %s not consumed" % tid)
    r = by[tid]
    lines += len(r["liveout"]["live_spy_calls"])
    recs += len(r["liveout"]["live_trc"])
    for c in v.get("bad", []):
      if c in ("LiveSpy", "LiveTrace", "Error"):
        run.violation("ao-host:" + c, "active object with live output, execution %d rejected: %s; outcome=%s errors=%s live trace=%s dispatched signals=%s" % (
          tid, c, r["outcome"], [e[:2] for e in r["errors"][:1]], r["liveout"]["live_trc"][:8], r["liveout"]["disp_sigs"][:8]),
          {"cfg": r["cfg"], "schedule": r["schedule"], "verdict": v, "liveout": r["liveout"], "errors": r["errors"][:1]})
  run.add(active_object_executions=len(results), active_object_live_spy_lines_checked=lines, active_object_live_trace_records_checked=recs,
          states=st, transitions=trn)
  return run.finish()
c22 = _simple("C22", gen.profile(p_eff=0.1, live=0.0, clocks=("fine",), hosts=(("queued", 4), ("instr", 3), ("plain", 3)),
                                 p_spied=0.6, p_bad_child=0.3,
                                 w_ops=dict(step=30, dispatch=15, post=2, defer=0, recall=0, is_in=30, child=25, scribble=0,
                                            clear_spy=0, clear_trace=0, empty_rtc=0)), 2500, 20000)
def _ao_host_phase(run, prop, force, n, clauses, what):
  """the active-object host (real ActiveObject under the deterministic scheduler, AOTrace.tla): the clauses that speak about `prop`"""
  from harness import aocheck
  results = aocheck.run_batch(n, kinds=("random", "pct"), caps=(5, 8), force=force)
  verdicts, st, trn = aocheck.validate_all(results)
  by = dict(results)
  for tid, v in verdicts.items():
    if v.get("stuck"):
      raise common.MachineryError("AO trace %s not consumed" % tid)
    r = by[tid]
    for c in v.get("bad", []):
      if c in clauses:
        run.violation("ao-host:" + c, "active object, execution %d rejected: %s; %s; outcome=%s errors=%s cfg=%s" % (
          tid, c, what(r), r["outcome"], [e[:2] for e in r["errors"][:1]], {k: r["cfg"].get(k) for k in ("nested", "toggle", "anon", "spied", "early")}),
          {"cfg": r["cfg"], "schedule": r["schedule"], "verdict": v, "names": r.get("names"), "errors": r["errors"][:1]})
  run.add(active_object_executions=len(results), states=st, transitions=trn)
  return results


def c23(tier):
  """the sequential hosts against Hsm.tla (Name / CurState clauses), then the active-object host: what a named or an anonymous active
  object says about itself once start_at has returned and when it has come to rest (AOTrace.tla NameAfterStart / NameAtRest)"""
  run = common.Run("C23", tier, "model_checking")
  run.assumptions += ASSUME_SEQ + ["active-object host: state_name / state_fn are read when start_at has returned (before anything is posted) and when the "
                                   "object has come to rest; the charts are a single state, two siblings, or a composite state with two substates"]
  P = gen.profile(p_eff=0.2, live=0.0, clocks=("fine",), hosts=(("queued", 4), ("instr", 3), ("plain", 3)), p_spied=0.6)
  with cf.ThreadPoolExecutor(2) as ex:
    f = ex.submit(model_check_hsm, run, tier)
    seqcheck.run(run, "C23", 2500 if tier == "quick" else 20000, P)
    f.result()
  _ao_host_phase(run, "C23", "c23", 400 if tier == "quick" else 8000, ("NameAfterStart", "NameAtRest", "Error"),
                 lambda r: "after start_at %s, at rest %s, A transitions %s" % (r["names"]["after"], r["names"]["final"], r["names"]["a_disp"]))
  return run.finish()


# ---------------------------------------------------------------- C24
def _bad_maker(rng, P):
  chart = gen.gen_chart(rng, P)
  n, par = chart["n"], chart["par"]
  if rng.random() < 0.7:
    st = rng.randint(1, n)
    desc = set(gen.descendants(par, st))
    cands = [x for x in range(1, n + 1) if x not in desc]     # itself, ancestors, unrelated states
    chart["bad"] = ["init", st, rng.choice(cands)]
    chart["init"][st - 1] = 0
  elif rng.random() < 0.5:
    st = rng.randint(1, n)
    chart["bad"] = ["none", st, rng.choice(chart["sigs"])]
  else:
    chart["bad"] = ["nosuper", rng.randint(1, n), ""]      # no status when asked for its super state (no final else clause)
  ops = gen.gen_ops(rng, chart, P)
  if rng.random() < 0.4:
    k0 = [k for k, o in enumerate(ops) if o[0] == "start"][0]
    ops[k0] = ["start", chart["bad"][1]]
  return chart, ops


def _reached_bad(t):
  return t["ev"][-1]["outcome"] != "ok" and t["ev"][-1]["k"] != "child_state"


def c24(tier):
  run = common.Run("C24", tier, "model_checking")
  run.assumptions += ASSUME_SEQ + ["exactly one fault per chart: an initial transition whose target is not a proper descendant, a handler returning None for an offered event, "
                                   "or a handler returning None when asked for its super state (no final else clause)"]
  P = gen.profile(nmin=1, nmax=9, deep=0.6, p_init=0.5, w_tran=45, w_none=40, w_hook=10, w_unh=5, live=0.0, clocks=("fine",),
                  p_eff=0.05, hosts=(("queued", 4), ("instr", 3), ("plain", 3)), p_spied=0.6, nops=(2, 8),
                  w_ops=dict(step=50, dispatch=40, post=0, defer=0, recall=0, is_in=3, child=0, scribble=0, clear_spy=0,
                             clear_trace=0, empty_rtc=0))
  with cf.ThreadPoolExecutor(2) as ex:
    f = ex.submit(model_check_hsm, run, tier)
    traces = seqcheck.run(run, "C24", 3000 if tier == "quick" else 20000, P, maker=_bad_maker, is_nontrivial=_reached_bad)
    f.result()
  run.add(traces_reaching_the_fault=sum(1 for t in traces if _reached_bad(t)))
  return run.finish()


# ---------------------------------------------------------------- C17
def _build_maker(rng, P):
  from harness import chartgen
  chart = gen.gen_chart(rng, P)
  chart["build"] = rng.choice(["hand", "template", "factory", "tocode", "tocode"])
  chart["spied"] = True
  chart["names"] = ["s%d" % (i + 1) for i in range(chart["n"])]      # the registries are keyed by state name: names are unique here
  chart["hstyle"] = "fn"
  chart["companion"] = False
  # what kind of callable the registered callbacks are: plain functions, functools.partial objects, objects with __call__,
  # or (template / Factory only: the generated text calls cb(chart, e)) bound methods of the chart
  chart["cbstyle"] = rng.choice(["def", "def", "partial", "object"] + (["method"] if chart["build"] in ("template", "factory") else []))
  if chart["build"] in ("template", "factory", "tocode") and rng.random() < 0.3:
    # a mixed chart: some states written by hand (naming their own super state), the others generated and nested under / around them
    chart["hand_states"] = sorted(i for i in range(1, chart["n"] + 1) if rng.random() < 0.5)
  chart["decoy"] = rng.random() < 0.3       # a second chart object with the same state names, another hierarchy and other callbacks
  chart["host"] = "factory" if chart["build"] == "factory" or (chart["build"] == "tocode" and rng.random() < 0.3) else "queued"
  chart["early_code"] = chart["build"] == "tocode" and chart["host"] != "factory" and rng.random() < 0.3   # to_code asked for before the chart is complete, and again after
  chart["live_spy"] = chart["live_trace"] = False
  if chart["host"] == "factory":
    chart["cap"] = 500
  if not chartgen.registered_list(chart):
    chart["estyle"][0] = "h"
  chart["reg"] = chartgen.registered_list(chart)
  if chart.get("hand_states") and not [r for r in chart["reg"] if r[0] not in chart["hand_states"]]:
    chart["hand_states"] = []          # (as above: at least one callback is registered with the chart object)
  ops = gen.gen_ops(rng, chart, P)
  return chart, ops


def _attr_c17(v):
  return {"C17"} if set(v.get("bad", [])) & {"Outcome", "Calls", "SpyCalls", "Cur", "Marks", "Q", "DQ", "Trc", "Name", "CurState", "Ret"} else set()


def c17(tier):
  run = common.Run("C17", tier, "model_checking")
  run.assumptions += ASSUME_SEQ + [
    "callbacks are plain functions, functools.partial objects, callable objects or (template/Factory builds) bound methods of the chart, "
    "each with a unique __name__ other than 'handled'; states are passed as functions, not strings",
    "in about a quarter of the generated/to_code charts some states are hand-written functions and the others are generated and nested "
    "under or around them (mixed charts)",
    "the Factory chart is driven through HsmWithQueues.start_at/next_rtc without starting the active object's thread"]
  P = gen.profile(nmin=1, nmax=8, deep=0.6, p_init=0.4, live=0.0, clocks=("fine",), p_eff=0.3, hosts=(("queued", 1),),
                  p_spied=1.0, caps=(3, 500), nops=(3, 10),
                  w_ops=dict(step=60, dispatch=0, post=10, defer=5, recall=5, is_in=3, child=2, scribble=0, clear_spy=0,
                             clear_trace=0, empty_rtc=3))
  with cf.ThreadPoolExecutor(2) as ex:
    f = ex.submit(model_check_hsm, run, tier)
    traces = seqcheck.run(run, "C17", 3000 if tier == "quick" else 20000, P, maker=_build_maker, attr=_attr_c17)
    f.result()
  byb = {}
  for t in traces:
    byb[t["chart"]["build"]] = byb.get(t["chart"]["build"], 0) + 1
  run.add(traces_per_build=byb)
  return run.finish()


# ---------------------------------------------------------------- C18
C18_CONFIGS = [("plain", True, 0, 0), ("plain", False, 0, 0), ("instr", True, 0, 0), ("instr", False, 0, 0),
               ("queued", False, 0, 0), ("queued", False, 1, 1),
               ("queued", True, 0, 0), ("queued", True, 1, 0), ("queued", True, 0, 1), ("queued", True, 1, 1),
               # partially decorated: some states carry the spy decorator, the others do not
               ("queued", "partial", 0, 0), ("instr", "partial", 0, 0)]


def _config_maker(rng, P, tid, seed):
  import random
  base = random.Random((seed << 20) ^ (tid // len(C18_CONFIGS)) * 7919)
  chart = gen.gen_chart(base, P)
  n = chart["n"]
  start = base.randint(1, n)
  sigs = [base.choice(chart["sigs"]) for _ in range(base.randint(2, 8))]
  host, spied, ls, lt = C18_CONFIGS[tid % len(C18_CONFIGS)]
  if spied == "partial":
    spied = True
    own = random.Random((seed << 20) ^ (tid * 7919 + 13))      # (not `base`: every configuration of a case must draw the same ops)
    chart["spied_states"] = [own.random() < 0.5 for _ in range(n)]
  chart.update({"host": host, "spied": spied, "live_spy": bool(ls), "live_trace": bool(lt), "eff": [],
                "clock": base.choice(["fine", "const", "coarse"])})
  if base.random() < 0.25:
    chart["hstyle"] = "wrapped"      # where the states do not carry the spy decorator they carry a decorator of the user's own
  ops = [["start", start]]
  for sg in sigs:
    if host == "queued":
      ops += [["post_fifo", sg], ["next_rtc"]]
    else:
      ops.append(["dispatch", sg])
  if base.random() < 0.3:
    # the chart is started again at the end (after its trace was cleared, where the host can do that): the same entries must run in
    # every configuration
    if host == "queued":
      ops.append(["clear_trace"])
    ops.append(["start", base.randint(1, n)])
  return chart, ops


_config_maker.wants_tid = True


def _attr_c18(v):
  return {"C18"} if set(v.get("bad", [])) & {"Outcome", "Calls", "Cur", "Name"} else set()


def c18(tier):
  run = common.Run("C18", tier, "model_checking")
  run.assumptions += ASSUME_SEQ + ["the same chart and event sequence is run under %d configurations (host x decorator x live flags x clock); "
                                   "each must conform to the same Hsm.tla behaviour, hence to each other" % len(C18_CONFIGS),
                                   "the active-object host is covered by the C04/C07 harness, not here"]
  P = gen.profile(nmin=1, nmax=12, deep=0.75, p_init=0.4, p_eff=0.0)
  nbase = 300 if tier == "quick" else 5000
  with cf.ThreadPoolExecutor(2) as ex:
    f = ex.submit(model_check_hsm, run, tier)
    traces = seqcheck.run(run, "C18", nbase * len(C18_CONFIGS), P, maker=_config_maker, attr=_attr_c18)
    f.result()
  # cross-configuration agreement of the independent action logs (what TLC's verdicts imply), measured directly
  groups, disagree = {}, 0
  for t in traces:
    vis = [[(c[0], c[1]) for c in e["log"] if c[0] in ("ENTRY_SIGNAL", "EXIT_SIGNAL", "INIT_SIGNAL") or c[0] in t["chart"]["sigs"]]
           for e in t["ev"] if e["k"] in ("start", "dispatch", "next_rtc")]
    groups.setdefault(t["tid"] // len(C18_CONFIGS), []).append((t, vis, [e["cur"] for e in t["ev"] if e["k"] in ("start", "dispatch", "next_rtc")]))
  for g, lst in groups.items():
    ref = lst[0]
    for t, vis, curs in lst[1:]:
      if vis != ref[1] or curs != ref[2]:
        disagree += 1
        run.violation("config-disagreement", "configuration %s/%s behaves differently from %s/%s on the same chart and events" % (
          t["chart"]["host"], t["chart"]["spied"], ref[0]["chart"]["host"], ref[0]["chart"]["spied"]),
          {"chart": t["chart"], "ops": t["ops"], "other_chart": ref[0]["chart"], "other_ops": ref[0]["ops"]})
  run.add(base_cases=len(groups), configurations=len(C18_CONFIGS), cross_configuration_disagreements=disagree)
  # the active-object host: the same poster programs with un-decorated states, decorated states, and decorated states with
  # live spy/trace on, under controlled schedules; every execution must conform to AO.tla (dispatch of everything posted, in order)
  from harness import aocheck
  results = aocheck.run_batch(600 if tier == "quick" else 12000, kinds=("random", "pct"), caps=(5, 8), force="c18")
  verdicts, st, trn = aocheck.validate_all(results)
  by = dict(results)
  for tid, v in verdicts.items():
    if v.get("stuck"):
      raise common.MachineryError("AO trace %s not consumed" % tid)
    for c in v.get("bad", []):
      r = by[tid]
      run.violation("ao-host:" + c, "active object (spied=%s live=%s) execution %d rejected: %s; outcome=%s errors=%s dispatched=%s" % (
        r["cfg"]["spied"], r["cfg"].get("live"), tid, c, r["outcome"], [e[:2] for e in r["errors"][:1]], r["dispatched"]),
        {"cfg": r["cfg"], "schedule": r["schedule"], "verdict": v, "outcome": r["outcome"], "errors": r["errors"][:1], "ops": r["ops"][-40:]})
  run.add(active_object_executions=len(results), states=st, transitions=trn,
          active_object_configs={"plain": sum(1 for _, r in results if not r["cfg"]["spied"]),
                                 "spied": sum(1 for _, r in results if r["cfg"]["spied"] and not r["cfg"].get("live")),
                                 "spied+live": sum(1 for _, r in results if r["cfg"].get("live"))})
  return run.finish()
