# Checks for the active fabric (C06, C08, C13): Fabric.tla / FabricMC.tla / FabricTrace.tla + harness B.
import json, random, multiprocessing as mp, concurrent.futures as cf
from harness import common, tlc, dsched, fabdrive
from checks.conc import ASSUME_B

CLAUSE_PROP = {"Registry": "C06", "Missing": "C06", "NotSubscribed": "C06", "Twice": "C06", "DupSubs": "C06", "GetUnknown": "C06",
               "Unstable": "C08", "OutOfTurn": "C08", "TwoThreads": "C13", "IsAlive": "C13", "StopLeft": "C13", "StartFailed": "C13", "Hang": "C13",
               "NoProgress": "C13", "Error": "C13", "NotSingle": "C30"}
PROFILES = {
  "C06": {"weights": [40, 40, 6, 4, 3, 3], "min_ops": 5, "max_ops": 12, "resub": 0.2},
  "C08": {"weights": [15, 70, 5, 3, 1, 2], "min_ops": 6, "max_ops": 14, "prios": [1, 1, 1, 2, 2, 3], "max_pub2": 4, "long_lived": 0.3},
  "C13": {"weights": [15, 20, 25, 20, 8, 12], "min_ops": 5, "max_ops": 12, "bad": 6},
  "C30": {"weights": [10, 15, 25, 25, 8, 17], "min_ops": 6, "max_ops": 12},
}


def _work(args):
  seed, lo, hi, prof = args
  out = []
  for tid in range(lo, hi):
    rng = random.Random((seed << 21) ^ (tid * 2654435761 % (1 << 32)))
    scen = fabdrive.gen_scenario(rng, PROFILES[prof])
    kind = ("random", "pct", "lag")[tid % 3]
    if kind == "random":
      pol = dsched.RandomPolicy(rng, stick=rng.choice([0.0, 0.5, 0.8]))
    elif kind == "pct":
      pol = dsched.PCTPolicy(rng, depth=rng.choice([2, 3]), k=rng.choice([40, 100]))
    else:
      # the delivery threads lag behind: drivers run first (C08 "however far the delivery threads lag")
      class Lag(dsched.Policy):
        def choose(self, runnable, sched):
          dr = [v for v in runnable if v.name in ("main", "pub2")]
          return rng.choice(dr) if dr and rng.random() < 0.9 else rng.choice(runnable)
      pol = Lag()
    r = fabdrive.run_one(scen, dsched.FairSuffix(pol, 700), 1800)
    r["scen"], r["policy"] = scen, kind
    out.append((tid, r))
  return out


def mc_cfg(nsub, npub):
  return ("SPECIFICATION MCSpec\nCONSTANTS MaxSub = %d\nMaxPub = %d\nINVARIANT NoDupSubs\nINVARIANT DeliveredWasOwedOrLate\n"
          "INVARIANT QuiescentAllDelivered\nINVARIANT OneThreadPerKind\nCHECK_DEADLOCK FALSE\n" % (nsub, npub))


def model_check(run, tier):
  n = (1, 2) if tier == "quick" else (2, 2)
  r = tlc.run("FabricMC.tla", mc_cfg(*n), workers=8, timeout=3000)
  tlc.need_ok(r, "FabricMC")
  if r.violated:
    raise common.MachineryError("FabricMC.tla violates %s" % r.violated)
  run.add(states=r.distinct, transitions=r.generated,
          tlc_runs=["FabricMC subs<=%d pubs<=%d: %d distinct states; NoDupSubs, NeverTwice, QuiescentAllDelivered, OneThreadPerKind hold" % (
            n[0], n[1], r.distinct)])


def fabric_check(prop, nq, nt):
  def check(tier, finish=True):
    run = common.Run(prop, tier, "model_checking")
    run.assumptions += ASSUME_B + ["start/stop/clear/subscribe come from one driver thread; a second thread publishes concurrently",
                                   "the order of two overlapping publish calls is not prescribed (only publish-returned-before-publish-called)"]
    n = nq if tier == "quick" else nt
    chunk = max(1, (n + 63) // 64)
    with cf.ThreadPoolExecutor(1) as ex:
      f = ex.submit(model_check, run, tier)
      with mp.get_context("fork").Pool(16) as pool:
        results = [x for part in pool.map(_work, [(common.seed(), lo, min(n, lo + chunk), prop) for lo in range(0, n, chunk)]) for x in part]
      verdicts, t = fabdrive.validate(results)
      f.result()
    by = dict(results)
    others = {}
    for tid, v in verdicts.items():
      if v.get("stuck"):
        raise common.MachineryError("fabric trace %d not consumed: %s" % (tid, json.dumps(by[tid]["events"])[:1500]))
      for c in v.get("bad", []):
        p = CLAUSE_PROP.get(c, "C06")
        r = by[tid]
        if p == prop:
          run.violation(c, "fabric execution %d (%s) rejected at event %d: %s; main=%s" % (tid, r["policy"], v["at"], c, json.dumps(r["scen"]["main"])),
                        {"scenario": r["scen"], "schedule": r["schedule"], "verdict": v, "events": r["events"], "outcome": r["outcome"],
                         "blocked": r["blocked"], "errors": r["errors"][:1]})
        else:
          others[p] = others.get(p, 0) + 1
    run.add(traces_validated_against_impl=len(results), evaluations=len(results), states=t.distinct, transitions=t.generated,
            distinct_nontrivial=len({json.dumps([r["scen"], r["schedule"]]) for _, r in results}),
            events_validated=sum(len(r["events"]) for _, r in results))
    if others:
      run.add(rejections_attributed_to_other_properties=others)
    for tid, r in results[:2]:
      run.sample({"scenario": r["scen"], "policy": r["policy"], "events": r["events"][:16]})
    return run.finish() if finish else run
  return check


def _halt_gen(rng):
  """active objects + fabric stop / restart (C13: stop() halts every active object at its next wake-up; a later start()
  resumes delivery for subsequent subscriptions and publications)"""
  names = ["a1", "a2", "a3"][:rng.randint(1, 3)]
  aos = [{"name": nm, "spied": rng.random() < 0.5, "instrumented": True, "handler_ops": {}} for nm in names]
  ops = [["start", nm] for nm in names]
  subs = [nm for nm in names if rng.random() < 0.7]
  ops += [["sub", nm, "A", rng.choice(["fifo", "lifo"])] for nm in subs]
  ops.append(["settle"])
  for _ in range(rng.randint(0, 2)):
    ops.append(["pub", rng.choice(names), "A", 1])
  if rng.random() < 0.5:
    # a slow handler: the object is in the middle of a step (or has events waiting) when the fabric stops
    nm = rng.choice(names)
    [a for a in aos if a["name"] == nm][0]["handler_ops"]["C"] = [["sleep", 1]]
    ops += [["post", nm, "fifo", "C"], ["post", nm, "fifo", "B"]]
  else:
    ops.append(["settle"])
  ops.append(["fstop"])
  woken = [nm for nm in names if rng.random() < 0.8]
  for nm in woken:
    ops.append(["post", nm, rng.choice(["fifo", "lifo"]), "B"])      # the wake-up: the object sees the fabric is down and ends
  ops.append(["settle"])
  drivers = {"d1": ops}
  return {"cap": 30, "aos": aos, "drivers": drivers}


def _halt_work(args):
  from harness import sysdrive
  seed, lo, hi = args
  out = []
  for tid in range(lo, hi):
    rng = random.Random((seed << 20) ^ (tid * 2654435761 % (1 << 32)))
    cfg = _halt_gen(rng)
    pol = dsched.RandomPolicy(rng, stick=rng.choice([0.0, 0.5, 0.8])) if tid % 2 else dsched.PCTPolicy(rng, 3, 120)
    pol.time_limit = 10
    r = sysdrive.run_one(cfg, dsched.FairSuffix(pol, 1500, time_limit=10), 4000)
    r["cfg"] = cfg
    out.append((tid, r))
  return out


def c13(tier):
  rc_run = _c13_fabric(tier, finish=False)
  run = rc_run
  from harness import syscheck
  n = 400 if tier == "quick" else 8000
  chunk = max(1, (n + 63) // 64)
  with mp.get_context("fork").Pool(16) as pool:
    results = [x for part in pool.map(_halt_work, [(common.seed(), lo, min(n, lo + chunk)) for lo in range(0, n, chunk)]) for x in part]
  v, t = syscheck.validate(results, 30)
  others = syscheck.file_violations(run, "C13", results, v)
  run.add(active_object_halt_executions=len(results), system_level_states=t.distinct)
  if others:
    run.add(system_rejections_attributed_to_other_properties=others)
  return run.finish()


c06 = fabric_check("C06", 1500, 15000)
c08 = fabric_check("C08", 1500, 15000)
_c13_fabric = fabric_check("C13", 1500, 15000)
