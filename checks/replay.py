# ./check Cxx --replay <file>: re-run exactly the recorded failing case (chart + ops, or configuration + schedule, or input)
# on the current tree and judge it again with the same trace specification.  Exit 1 + VIOLATION line if it is rejected again.
import json, os
from harness import common, dsched


def _verdict(prop, path, bad, extra=""):
  if bad:
    print("replayed: rejected again, clauses %s %s" % (sorted(bad), extra))
    print("VIOLATION property=%s replay=%s" % (prop, path))
    return 1
  print("replayed: accepted on this tree %s" % extra)
  return 0


def _policy(schedule, time_limit=None):
  p = dsched.ReplayPolicy(schedule, fallback=dsched.RoundRobinPolicy())
  p.time_limit = time_limit
  return p


def replay(prop, path):
  with open(path) as f:
    case = json.load(f)
  # ---- sequential charts (Harness A)
  if "chart" in case and "ops" in case:
    from harness import chartgen, hsmtrace
    ev = chartgen.run_chart(case["chart"], case["ops"])
    v, _ = hsmtrace.validate([{"tid": 0, "chart": case["chart"], "ev": ev}])
    return _verdict(prop, path, v[0].get("bad"), json.dumps(v[0])[:1500])
  # ---- whole-system executions (sysdrive): timers, publish/subscribe, fabric halting, C04 system phase
  if "cfg" in case and "drivers" in case["cfg"]:
    from harness import sysdrive, syscheck, tlc
    from checks import timers
    cfg = case["cfg"]
    hz = cfg.get("horizon", timers.H)
    r = sysdrive.run_one(cfg, _policy(case["schedule"], hz), 60000)
    r["cfg"] = cfg
    bad = set()
    wd = common.work_dir()
    p1 = os.path.join(wd, "replay_t.ndjson")
    started = [e[2] for e in r["ev"] if e[0] == "ret" and e[1] == "start"]
    with open(p1, "w") as f:
      f.write(json.dumps({"tid": 0, "ev": r["ev"], "tcap": cfg.get("tcap", 50), "aos": [a["name"] for a in cfg["aos"]], "started": started,
                          "end": {"outcome": r["outcome"], "drivers_done": r["drivers_done"] or r["outcome"] == "quiescent", "alive": r["alive"], "horizon": hz}}) + "\n")
    for mod in ("TimerTrace.tla", "PubSubTrace.tla"):
      t = tlc.run(mod, "SPECIFICATION TSpec\nCHECK_DEADLOCK FALSE\n", workers=1, env={"TRACE_FILE": p1}, timeout=600)
      for p in t.printed:
        if isinstance(p, dict) and p.get("bad"):
          bad |= {mod[:-4] + ":" + c for c in p["bad"]}
    sv, _ = syscheck.validate([(0, r)], cfg.get("cap", 50), lenient_done=True)
    bad |= {"SystemTrace:" + c for c in sv[0].get("bad", [])}
    # only the clauses that speak about the replayed property (or the recorded key) count
    key = str(case.get("key", "")).replace("system:", "")
    rel = {b for b in bad if b.split(":", 1)[1] == key} or bad
    return _verdict(prop, path, rel, "outcome=%s errors=%s" % (r["outcome"], [e[:2] for e in r["errors"][:1]]))
  # ---- one active object + posters (aodrive)
  if "cfg" in case and "progs" in case["cfg"]:
    from harness import aodrive
    cfg = dict(case["cfg"])
    cfg.pop("replay", None)
    r = aodrive.run_one(cfg, _policy(case["schedule"]), 4000)
    v, _ = aodrive.validate([(0, r)], cfg["cap"])
    return _verdict(prop, path, v[0].get("bad"), "outcome=%s dq=%s dispatched=%s" % (r["outcome"], r["dq"], r["dispatched"]))
  # ---- the fabric alone (fabdrive)
  if "scenario" in case:
    from harness import fabdrive
    r = fabdrive.run_one(case["scenario"], _policy(case["schedule"]), 4000)
    r["scen"] = case["scenario"]
    v, _ = fabdrive.validate([(0, r)])
    return _verdict(prop, path, v[0].get("bad"), "outcome=%s" % r["outcome"])
  # ---- utilities under the scheduler
  from checks import util
  if prop == "C25" and "progs" in case:
    from harness import utildrive
    r = utildrive.registry_run(case["progs"], _policy(case["schedule"]))
    r["tid"] = 0
    v, _ = util.trace_validate("SignalsTrace", [{k: r[k] for k in ("tid", "ev", "final", "outcome", "done", "errors")}])
    return _verdict(prop, path, v[0].get("bad"))
  if prop == "C27" and "progs" in case:
    from harness import tsadrive
    r = tsadrive.c27_run(case["progs"], _policy(case["schedule"]))
    v, _ = util.trace_validate("TSATrace", [{"tid": 0, "kind": "c27", "progs": [case["progs"][k] for k in sorted(case["progs"])], "init": [1, 2, 3],
                                             "final": r["final"], "errors": r["errors"], "outcome": r["outcome"], "done": r["done"],
                                             "lock_count": r["lock_count"]}])
    return _verdict(prop, path, v[0].get("bad"), "final=%s" % r["final"])
  if prop == "C30" and "klass" in case:
    from harness import utildrive
    if str(case["klass"]).startswith("declared "):
      r = utildrive.real_singleton_run(case["klass"][len("declared "):], case["threads"], _policy(case["schedule"]))
    else:
      r = utildrive.singleton_run(case["klass"], case["threads"], _policy(case["schedule"]))
    v, _ = util.trace_validate("SingletonTrace", [{"tid": 0, "made": r["made"], "got": r["got"], "final": r["final"], "errors": r["errors"],
                                                   "outcome": r["outcome"], "done": r["done"]}])
    return _verdict(prop, path, v[0].get("bad"), "made=%s got=%s" % (r["made"], r["got"]))
  # ---- pure inputs
  if prop == "C32" and "text" in case:
    from miros.hsm import stripped
    with stripped(case["text"]) as got:
      got = [got] if isinstance(got, str) else list(got)
    return _verdict(prop, path, [] if got == case["expected"] else ["stripped"], "got=%s expected=%s" % (got[:3], case["expected"][:3]))
  if prop == "C26" and "events" in case:
    import miros.event as mev
    bad = []
    for e in case["events"]:
      try:
        pay = json.loads(bytes.fromhex(e[3]).decode())
        e2 = mev.Event.loads(mev.Event.dumps(mev.Event(signal=e[0], payload=pay)))
        if e2.signal_name != e[0] or util._canon(e2.payload) != e[3]:
          bad.append("RoundTrip:" + e[0])
      except Exception as ex:  # noqa
        bad.append("Error:%s:%s" % (e[0], type(ex).__name__))
    return _verdict(prop, path, bad)
  if prop == "C15" and case.get("instances"):
    from harness import deferinst
    ops = deferinst.run_one(None, 0, script=[o[:2] for o in case["ops"]])
    return _verdict(prop, path, deferinst.judge(ops), "ops=%s" % ops[-2:])
  if prop == "C16" and "cap" in case:
    import queue
    import miros.hsm as mh
    import miros.activeobject as ma
    old = mh.HsmWithQueues.QUEUE_SIZE
    mh.HsmWithQueues.QUEUE_SIZE = case["cap"]
    try:
      ld = ma.LockingDeque()
    finally:
      mh.HsmWithQueues.QUEUE_SIZE = old
    bad = []
    for op in case["ops"]:
      k = op[0]
      if len(op) > 6 and op[6] == "race":
        continue                                # the consumer's half of a racing clear(): performed by the clear record below/above
      try:
        if k == "clear" and len(op) > 6:
          from checks.conc import racing_clear
          st = racing_clear(ld, op[6])[0]
          if st != "ok":
            raise RuntimeError(st)
        elif k in ("append", "appendleft"):
          getattr(ld, k)(op[1])
        elif k in ("popleft", "pop"):
          ld.wait(False)
          getattr(ld, k)()
        elif k == "wait":
          ld.wait(False)
        elif k == "clear":
          ld.clear()
        elif k == "wait_empty":
          try:
            ld.wait(False)
          except queue.Empty:
            pass
        out = "ok"
      except Exception as ex:  # noqa
        out = "raised:" + type(ex).__name__
      if out not in ("ok",) and k != "wait_empty":
        bad.append("%s:%s" % (k, out))
      if len(ld.deque) > case["cap"]:
        bad.append("Bound")
    return _verdict(prop, path, bad, "deque=%s tokens=%s" % (list(ld.deque), ld.locking_queue.qsize()))
  if prop == "C29" and "ops" in case:
    from harness import tsadrive
    AUG = {("x", "x"): 0, ("x", "y"): 1, ("y", "x"): 2, ("y", "y"): 3}
    mod = tsadrive.load_statements(["a.x += b.x", "a.x += b.y", "a.y += b.x", "a.y += b.y"])
    insts, ops = {}, []
    for o in case["ops"]:
      try:
        if o[0] == "new":
          insts[o[1]] = getattr(mod, o[2])()
          ops.append(["new", o[1], o[2], "", 0, "ok"])
        elif o[0] == "copy":
          insts[o[1]] = tsadrive.make_copy(insts[o[6]], False)
          ops.append(["copy", o[1], o[2], "", 0, "ok", o[6], ""])
        elif o[0] == "set":
          setattr(insts[o[1]], o[3], o[4])
          ops.append(["set", o[1], o[2], o[3], o[4], "ok"])
        elif o[0] == "get":
          ops.append(["get", o[1], o[2], o[3], getattr(insts[o[1]], o[3]), "ok"])
        elif o[0] == "aug":
          getattr(mod, "stmt_%d" % AUG[(o[3], o[7])])(insts[o[1]], insts[o[6]], 0, 0)
          ops.append(["aug", o[1], o[2], o[3], getattr(insts[o[1]], o[3]), "ok", o[6], o[7]])
      except Exception as ex:  # noqa
        ops.append(list(o[:5]) + ["raised:" + type(ex).__name__] + list(o[6:]))
    v, _ = util.trace_validate("TSATrace", [{"tid": 0, "kind": "c29", "ops": ops}])
    return _verdict(prop, path, v[0].get("bad"), json.dumps(ops)[:600])
  if prop == "C28" and "sequence" in case:
    from harness import tsadrive
    forms = tsadrive.c28_statements()
    srcs = [s for _, s in forms]
    mod = tsadrive.load_statements(srcs)
    a, b = mod.Obj(), mod.Obj()
    a.x, a.y, b.x = 2, 3, 1
    a.l = [1, 2, 3]
    bad = []
    for r in case["sequence"]:
      try:
        getattr(mod, "stmt_%d" % srcs.index(r[1]))(a, b, r[3], r[2])
      except ZeroDivisionError:
        continue
      except Exception as ex:  # noqa
        bad.append("Raised:%s:%s" % (r[1], type(ex).__name__))
      cx, cy = tsadrive.lock_state(tsadrive.lock_of(mod, "Obj", "x"))[0], (tsadrive.lock_state(tsadrive.lock_of(mod, "Obj", "y"))[0]
                                                                                  + tsadrive.lock_state(tsadrive.lock_of(mod, "Obj", "l"))[0])
      if cx or cy:
        bad.append("LockHeld:%s" % r[1])
        break
    return _verdict(prop, path, bad)
  print("no replayer for this kind of case (keys: %s): re-run `./check %s` to regenerate it" % (sorted(case), prop))
  return 2
