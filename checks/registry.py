import json
from . import seq, conc, fab, pubsub, timers, util, tsa
from harness import common

CHECKS = {
  "C01": seq.c01, "C02": seq.c02, "C03": seq.c03, "C14": seq.c14, "C15": seq.c15,
  "C19": seq.c19, "C20": seq.c20, "C21": seq.c21, "C22": seq.c22, "C23": seq.c23, "C24": seq.c24, "C17": seq.c17, "C18": seq.c18, "C04": conc.c04, "C05": conc.c05, "C16": conc.c16, "C06": fab.c06, "C08": fab.c08, "C13": fab.c13, "C07": pubsub.c07, "C09": pubsub.c09, "C10": timers.c10, "C11": timers.c11, "C12": timers.c12, "C31": timers.c31, "C30": util.c30, "C25": util.c25, "C26": util.c26, "C32": util.c32, "C27": tsa.c27, "C28": tsa.c28, "C29": tsa.c29,
}


from checks.replay import replay  # noqa: E402  (./check Cxx --replay <file>)
