# Checks for the concurrent layer (Harness B + LockingDeque.tla / AO.tla / AOTrace.tla ...).
import json, os, random, concurrent.futures as cf
from harness import common, tlc, dsched, aodrive, aocheck

LD_SAFETY = ["TypeOK", "NoLostWake", "AtMostOnce", "NoneLost", "PendingOrder", "NewKept"]
PROGDEF = {"ProgFF": {"p1": ["f", "f"], "p2": ["f", "f"]}, "ProgFL": {"p1": ["f", "l"], "p2": ["f", "l"]},
           "ProgF": {"p1": ["f"], "p2": ["f"]}}
ASSUME_B = [
  "a single C-level operation on a Queue/deque/Event is atomic (CPython GIL); threads are pre-empted only between such operations",
  "the primitives are cooperative shims installed in miros.activeobject's module globals; the miros code itself is unmodified",
  "one consumer thread per active object",
]


def ld_cfg(cap, prog, variant="fixed", invs=LD_SAFETY, spec="Spec", props=(), view=True):
  s = "SPECIFICATION %s\nCONSTANTS Cap = %d\nPosters = {\"p1\", \"p2\"}\nProg <- %s\nVariant = \"%s\"\n" % (spec, cap, prog, variant)
  s += "".join("INVARIANT %s\n" % i for i in invs) + "".join("PROPERTY %s\n" % p for p in props)
  return s + "CHECK_DEADLOCK FALSE\n"


def ld_model_check(run, configs, workers=8):
  with cf.ThreadPoolExecutor(len(configs)) as ex:
    futs = [(c, ex.submit(tlc.run, "LockingDeque.tla", ld_cfg(*c), workers, None, (), 6000)) for c in configs]
    for c, f in futs:
      r = f.result()
      tlc.need_ok(r, "LockingDeque %s" % (c,))
      if r.violated:
        raise common.MachineryError("LockingDeque.tla (repaired variant) violates %s for %s - the model of the repaired code is wrong "
                                    "or the repair is" % (r.violated, c))
      run.add(states=r.distinct, transitions=r.generated)
      run.add(tlc_runs=["LockingDeque cap=%d prog=%s variant=%s: %d distinct states, %s hold" % (
        c[0], c[1], c[2] if len(c) > 2 else "fixed", r.distinct, ",".join(c[3] if len(c) > 3 else LD_SAFETY))])


def ld_fidelity(run, n, cap=2, prog="ProgFL"):
  """spec -> code: complete behaviours of the repaired model, imposed step by step on the real code; every step must be
  the operation the model's label stands for and leave the same deque and token count."""
  def one(k):
    out = os.path.join(common.work_dir(), "beh_%d.json" % k)
    cfg = ld_cfg(cap, prog, "fixed", ["Trap"])
    r = tlc.run("LockingDeque.tla", cfg, workers=1, simulate="num=1", depth=300, seed=common.seed() * 1000 + k,
                args=("-dumpTrace", "json", out), timeout=120)
    if not os.path.exists(out):
      return None
    with open(out) as f:
      d = json.load(f)
    os.unlink(out)
    return [(a[1]["context"]["self"] if a[1].get("context") else "C", a[1]["name"], a[2][1]) for a in d["counterexample"]["action"]]
  with cf.ThreadPoolExecutor(8) as ex:
    behs = [b for b in ex.map(one, range(n)) if b]
  agree, first = 0, None
  for b in behs:
    r = aodrive.run_one({"cap": cap, "progs": PROGDEF[prog], "replay": b}, dsched.RoundRobinPolicy(), 800)
    rp = r.get("replay", {})
    if rp.get("ok") and r["outcome"] == "quiescent" and r["dq"] == []:
      agree += 1
    elif first is None:
      first = {"replay": rp, "outcome": r["outcome"], "dq": r["dq"]}
  run.add(model_behaviours_replayed=len(behs), model_behaviours_step_for_step_equal=agree)
  if behs and agree < len(behs):
    run.notes.append("model drift: %d of %d behaviours of LockingDeque.tla (repaired variant) do not replay step for step on this tree; "
                     "the TLC result on LockingDeque.tla is not claimed for it (the verdict comes from the validated executions). first: %s"
                     % (len(behs) - agree, len(behs), json.dumps(first)[:500]))
  return len(behs), agree


def ao_conformance(run, prop, n, kinds=("random", "pct", "random", "guided"), caps=(2, 3, 5, 8)):
  results = aocheck.run_batch(n, kinds, caps)
  verdicts, states, trans = aocheck.validate_all(results)
  others = aocheck.file_violations(run, prop, results, verdicts)
  keys = set()
  for tid, r in results:
    keys.add(json.dumps([r["cfg"], r["schedule"]]))
  nfull = sum(1 for v in verdicts.values() if v.get("everFull"))
  run.add(traces_validated_against_impl=len(results), evaluations=len(results), distinct_nontrivial=len(keys),
          states=states, transitions=trans, executions_in_overflow_regime=nfull,
          executions_by_policy={k: sum(1 for _, r in results if r["policy"] == k) for k in set(kinds)})
  if others:
    run.add(rejections_attributed_to_other_properties=others)
  for tid, r in results[:2]:
    run.sample({"cfg": r["cfg"], "policy": r["policy"], "outcome": r["outcome"], "dispatched": r["dispatched"],
                "first_ops": [o[:5] for o in r["ops"][:14]]})
  return results


def c04(tier):
  run = common.Run("C04", tier, "model_checking")
  run.assumptions += ASSUME_B + ["order / exactly-once are demanded only of executions in which the pending-event queue never reached "
                                 "its capacity (C04's overflow clause); at-most-once, no-lost-wake-up and boundedness always"]
  configs = [(2, "ProgFL"), (5, "ProgF")] if tier == "quick" else [(2, "ProgFF"), (2, "ProgFL"), (3, "ProgFL"), (5, "ProgFF")]
  with cf.ThreadPoolExecutor(2) as ex:
    f = ex.submit(ld_model_check, run, configs)
    f2 = ex.submit(ld_fidelity, run, 24 if tier == "quick" else 200)
    ao_conformance(run, "C04", 1600 if tier == "quick" else 40000)
    f.result()
    f2.result()
  return run.finish()


def c05(tier):
  run = common.Run("C05", tier, "model_checking")
  run.assumptions += ASSUME_B + ["fairness: every schedule ends in a round-robin suffix; an execution that has not reached quiescence "
                                 "within 1500 scheduling steps (the fair suffix starts at step 400) counts as not terminating"]
  live = [(2, "ProgF", "fixed", [], "FairSpec", ["PostersFinish", "Quiescence"])]
  if tier != "quick":
    live.append((2, "ProgFL", "fixed", [], "FairSpec", ["PostersFinish", "Quiescence"]))

  def liveness():
    for c in live:
      r = tlc.run("LockingDeque.tla", ld_cfg(*c), 8, None, (), 6000)
      tlc.need_ok(r, "LockingDeque liveness")
      if r.violated:
        raise common.MachineryError("LockingDeque.tla (repaired variant) violates liveness %s" % r.violated)
      run.add(states=r.distinct, transitions=r.generated)
      run.add(tlc_runs=["LockingDeque cap=%d prog=%s FairSpec: %d distinct states, PostersFinish and Quiescence hold under weak fairness" % (
        c[0], c[1], r.distinct)])
  with cf.ThreadPoolExecutor(2) as ex:
    f = ex.submit(liveness)
    f2 = ex.submit(ld_fidelity, run, 16 if tier == "quick" else 100, 2, "ProgF")
    ao_conformance(run, "C05", 1600 if tier == "quick" else 40000, kinds=("random", "pct", "guided", "pct"))
    f.result()
    f2.result()
  return run.finish()
