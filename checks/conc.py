# Checks for the concurrent layer (Harness B + LockingDeque.tla / AO.tla / AOTrace.tla ...).
import json, os, random, concurrent.futures as cf
from harness import common, tlc, dsched, aodrive, aocheck

LD_SAFETY = ["TypeOK", "NoLostWake", "AtMostOnce", "NoneLost", "PendingOrder", "NewKept"]
PROGDEF = {"ProgFF": {"p1": ["f", "f"], "p2": ["f", "f"]}, "ProgFL": {"p1": ["f", "l"], "p2": ["f", "l"]},
           "ProgF": {"p1": ["f"], "p2": ["f"]}}
ASSUME_B = [
  "a single C-level operation on a Queue/deque/Event is atomic (CPython GIL); threads are pre-empted only between such operations",
  "the primitives are cooperative shims installed in miros.activeobject's module globals; the miros code itself is unmodified",
  "one consumer thread per active object",
]


def ld_cfg(cap, prog, variant="fixed", invs=LD_SAFETY, spec="Spec", props=(), view=True):
  s = "SPECIFICATION %s\nCONSTANTS Cap = %d\nPosters = {\"p1\", \"p2\"}\nProg <- %s\nVariant = \"%s\"\n" % (spec, cap, prog, variant)
  s += "".join("INVARIANT %s\n" % i for i in invs) + "".join("PROPERTY %s\n" % p for p in props)
  return s + "CHECK_DEADLOCK FALSE\n"


def ld_model_check(run, configs, workers=8):
  with cf.ThreadPoolExecutor(len(configs)) as ex:
    futs = [(c, ex.submit(tlc.run, "LockingDeque.tla", ld_cfg(*c), workers, None, (), 6000)) for c in configs]
    for c, f in futs:
      r = f.result()
      tlc.need_ok(r, "LockingDeque %s" % (c,))
      if r.violated:
        raise common.MachineryError("LockingDeque.tla (repaired variant) violates %s for %s - the model of the repaired code is wrong "
                                    "or the repair is" % (r.violated, c))
      run.add(states=r.distinct, transitions=r.generated)
      run.add(tlc_runs=["LockingDeque cap=%d prog=%s variant=%s: %d distinct states, %s hold" % (
        c[0], c[1], c[2] if len(c) > 2 else "fixed", r.distinct, ",".join(c[3] if len(c) > 3 else LD_SAFETY))])


def ld_fidelity(run, n, cap=2, prog="ProgFL"):
  """spec -> code: complete behaviours of the repaired model, imposed step by step on the real code; every step must be
  the operation the model's label stands for and leave the same deque and token count."""
  def one(k):
    out = os.path.join(common.work_dir(), "beh_%d.json" % k)
    cfg = ld_cfg(cap, prog, "fixed", ["Trap"])
    r = tlc.run("LockingDeque.tla", cfg, workers=1, simulate="num=1", depth=300, seed=common.seed() * 1000 + k,
                args=("-dumpTrace", "json", out), timeout=120)
    if not os.path.exists(out):
      return None
    with open(out) as f:
      d = json.load(f)
    os.unlink(out)
    return [(a[1]["context"]["self"] if a[1].get("context") else "C", a[1]["name"], a[2][1]) for a in d["counterexample"]["action"]]
  with cf.ThreadPoolExecutor(8) as ex:
    behs = [b for b in ex.map(one, range(n)) if b]
  agree, first = 0, None
  for b in behs:
    r = aodrive.run_one({"cap": cap, "progs": PROGDEF[prog], "replay": b}, dsched.RoundRobinPolicy(), 800)
    rp = r.get("replay", {})
    if rp.get("ok") and r["outcome"] == "quiescent" and r["dq"] == []:
      agree += 1
    elif first is None:
      first = {"replay": rp, "outcome": r["outcome"], "dq": r["dq"]}
  run.add(model_behaviours_replayed=len(behs), model_behaviours_step_for_step_equal=agree)
  if behs and agree < len(behs):
    run.notes.append("model drift: %d of %d behaviours of LockingDeque.tla (repaired variant) do not replay step for step on this tree; "
                     "the TLC result on LockingDeque.tla is not claimed for it (the verdict comes from the validated executions). first: %s"
                     % (len(behs) - agree, len(behs), json.dumps(first)[:500]))
  return len(behs), agree


def ao_conformance(run, prop, n, kinds=("random", "pct", "random", "guided"), caps=(2, 3, 5, 8)):
  results = aocheck.run_batch(n, kinds, caps)
  verdicts, states, trans = aocheck.validate_all(results)
  others = aocheck.file_violations(run, prop, results, verdicts)
  keys = set()
  for tid, r in results:
    keys.add(json.dumps([r["cfg"], r["schedule"]]))
  nfull = sum(1 for v in verdicts.values() if v.get("everFull"))
  run.add(traces_validated_against_impl=len(results), evaluations=len(results), distinct_nontrivial=len(keys),
          states=states, transitions=trans, executions_in_overflow_regime=nfull,
          executions_by_policy={k: sum(1 for _, r in results if r["policy"] == k) for k in set(kinds)})
  if others:
    run.add(rejections_attributed_to_other_properties=others)
  for tid, r in results[:2]:
    run.sample({"cfg": r["cfg"], "policy": r["policy"], "outcome": r["outcome"], "dispatched": r["dispatched"],
                "first_ops": [o[:5] for o in r["ops"][:14]]})
  return results


SYS_INV = ["Bounded", "InOrder", "DispatchIsPop", "AtMostOnce", "QuietUnlessRunning"]
SYS_PROP = ["NoStepAfterStop", "NothingAfterStop", "EventuallyDispatched", "Drained"]


def system_model_check(run, tier):
  """TLC on the whole-system design (System.tla / SystemMC.tla): two objects, a driver posting at both ends, both delivery
  threads (one object holds both kinds of subscription), timed posts, stop(); safety and liveness under weak fairness"""
  posts, pubs, fires, cap = (1, 1, 0, 2) if tier == "quick" else (2, 1, 1, 3)
  cfg = ("SPECIFICATION MCSpec\nCONSTANTS AOs = {\"a1\", \"a2\"}\nCap = %d\nMaxPosts = %d\nMaxPubs = %d\nMaxFires = %d\n" % (cap, posts, pubs, fires)
         + "".join("INVARIANT %s\n" % i for i in SYS_INV) + "".join("PROPERTY %s\n" % p for p in SYS_PROP) + "CHECK_DEADLOCK FALSE\n")
  r = tlc.run("SystemMC.tla", cfg, 8, None, (), 6000)
  tlc.need_ok(r, "SystemMC")
  if r.violated:
    raise common.MachineryError("SystemMC.tla violates %s: the design of System.tla is wrong" % r.violated)
  run.add(states=r.distinct, transitions=r.generated)
  run.add(tlc_runs=["SystemMC cap=%d posts=%d publications=%d timed posts=%d: %d distinct states; %s and (weak fairness) %s hold" % (
    cap, posts, pubs, fires, r.distinct, ",".join(SYS_INV), ",".join(SYS_PROP))])


def _sys_work(args):
  import random as _r
  from harness import sysdrive
  from checks import pubsub, timers
  seed, lo, hi = args
  out = []
  for tid in range(lo, hi):
    rng = _r.Random((seed << 23) ^ (tid * 2654435761 % (1 << 32)))
    cfg = pubsub.gen(rng) if tid % 2 else timers.gen(rng, timers.PROFILE[rng.choice(["C10", "C11", "C12"])])
    cfg["cap"] = rng.choice([3, 4, 30])          # small capacities: the overflow regime is part of C04 / C16
    pol = dsched.RandomPolicy(rng, stick=rng.choice([0.0, 0.5, 0.8])) if tid % 4 < 2 else dsched.PCTPolicy(rng, 3, 150)
    pol.time_limit = timers.H
    if rng.random() < 0.3:
      pol = dsched.StallPolicy(pol, rng, p=rng.choice([0.02, 0.05]), durations=(1, 2, 3), max_stalls=rng.randint(1, 3))
    r = sysdrive.run_one(cfg, dsched.FairSuffix(pol, 2500, time_limit=timers.H), 5000)
    r["cfg"] = cfg
    out.append((tid, r))
  return out


def system_conformance(run, prop, n):
  """whole-system executions (several objects, fabric, timed sources, stop) validated against System.tla: the events that reach
  an object's queue from timed sources and from the fabric are dispatched exactly as often as they were queued, in queue order"""
  import multiprocessing as mp
  from harness import syscheck
  chunk = max(1, (n + 63) // 64)
  with mp.get_context("fork").Pool(16) as pool:
    results = [x for part in pool.map(_sys_work, [(common.seed(), lo, min(n, lo + chunk)) for lo in range(0, n, chunk)]) for x in part]
  states = 0
  others = {}
  for cap in sorted({r["cfg"]["cap"] for _, r in results}):
    part = [(tid, r) for tid, r in results if r["cfg"]["cap"] == cap]
    v, t = syscheck.validate(part, cap, lenient_done=True)
    states += t.distinct
    for p2, k in syscheck.file_violations(run, prop, part, v, extra_props=("C16",) if prop == "C04" else ()).items():
      others[p2] = others.get(p2, 0) + k
    run.add(system_level_dispatches=sum(sum(x.get("dispatched", {}).values()) for x in v.values()))
  run.add(system_executions_validated=len(results), system_level_states=states)
  run.add(system_trace_binding_demo=syscheck.binding_demo([x for x in results if x[1]["cfg"]["cap"] == 30], 30, lenient_done=True))
  if others:
    run.add(system_rejections_attributed_to_other_properties=others)


def c04(tier):
  run = common.Run("C04", tier, "model_checking")
  run.assumptions += ASSUME_B + ["order / exactly-once are demanded only of executions in which the pending-event queue never reached "
                                 "its capacity (C04's overflow clause); at-most-once, no-lost-wake-up and boundedness always"]
  configs = [(2, "ProgFL"), (5, "ProgF")] if tier == "quick" else [(2, "ProgFF"), (2, "ProgFL"), (3, "ProgFL"), (5, "ProgFF")]
  with cf.ThreadPoolExecutor(3) as ex:
    f = ex.submit(ld_model_check, run, configs)
    f2 = ex.submit(ld_fidelity, run, 24 if tier == "quick" else 200)
    f3 = ex.submit(system_model_check, run, tier)
    ao_conformance(run, "C04", 1600 if tier == "quick" else 20000)
    system_conformance(run, "C04", 600 if tier == "quick" else 12000)
    f.result()
    f2.result()
    f3.result()
  return run.finish()


def c05(tier):
  run = common.Run("C05", tier, "model_checking")
  run.assumptions += ASSUME_B + ["fairness: every schedule ends in a round-robin suffix; an execution that has not reached quiescence "
                                 "within 1500 scheduling steps (the fair suffix starts at step 400) counts as not terminating"]
  live = [(2, "ProgF", "fixed", [], "FairSpec", ["PostersFinish", "Quiescence"])]
  if tier != "quick":
    live.append((2, "ProgFL", "fixed", [], "FairSpec", ["PostersFinish", "Quiescence"]))

  def liveness():
    for c in live:
      r = tlc.run("LockingDeque.tla", ld_cfg(*c), 8, None, (), 6000)
      tlc.need_ok(r, "LockingDeque liveness")
      if r.violated:
        raise common.MachineryError("LockingDeque.tla (repaired variant) violates liveness %s" % r.violated)
      run.add(states=r.distinct, transitions=r.generated)
      run.add(tlc_runs=["LockingDeque cap=%d prog=%s FairSpec: %d distinct states, PostersFinish and Quiescence hold under weak fairness" % (
        c[0], c[1], r.distinct)])
  with cf.ThreadPoolExecutor(2) as ex:
    f = ex.submit(liveness)
    f2 = ex.submit(ld_fidelity, run, 16 if tier == "quick" else 100, 2, "ProgF")
    ao_conformance(run, "C05", 1600 if tier == "quick" else 20000, kinds=("random", "pct", "guided", "pct"))
    f.result()
    f2.result()
  return run.finish()


# ---------------------------------------------------------------- C16
def racing_clear(ld, j):
  """ld.clear() with a consumer's non-blocking token take injected before the j-th call clear() makes on the token queue
  (after clear() if it makes fewer calls).  Returns (status of clear, did the take get a token, was the take after clear)."""
  import queue
  real, state = ld.locking_queue, {"n": 0, "took": None}

  def _take():
    if state["took"] is None and real.mutex.acquire(False):     # a consumer could not get in while clear() holds the queue's own lock
      real.mutex.release()
      try:
        real.get_nowait()
        state["took"] = True
      except queue.Empty:
        state["took"] = False

  class _Racing(object):
    def __getattr__(self, name):
      a = getattr(real, name)
      if not callable(a):
        return a

      def call(*args, **kw):
        if state["n"] == j:
          _take()
        state["n"] += 1
        return a(*args, **kw)
      return call
  ld.locking_queue = _Racing()
  status = "ok"
  try:
    ld.clear()
  except Exception as ex:  # noqa
    status = "raised:" + type(ex).__name__
  finally:
    ld.locking_queue = real
  late = state["took"] is None
  if late:
    _take()
  return status, bool(state["took"]), late


def _ld_seq_trace(rng, cap, nops):
  """random single-threaded op sequence on the real LockingDeque (real queue.Queue; nothing may block)"""
  import queue
  import miros.hsm as mh
  import miros.activeobject as ma
  old = mh.HsmWithQueues.QUEUE_SIZE
  mh.HsmWithQueues.QUEUE_SIZE = cap
  try:
    ld = ma.LockingDeque()
  finally:
    mh.HsmWithQueues.QUEUE_SIZE = old
  ops, nid = [], 0
  force = None
  for _ in range(nops):
    k = force or rng.choices(["append", "appendleft", "popleft", "pop", "clear", "len", "wait", "clear_race"], [30, 25, 15, 10, 6, 8, 5, 5])[0]
    force = None
    if k == "clear_race":
      # clear() is not one step: the consumer may take a wake-up token between any two things clear() does with the token
      # queue.  The take is injected before the j-th call clear() makes on the token queue and the pair is recorded in a
      # linearised order the specification already knows: the take succeeded -> "wait" (with the content before) then "clear";
      # it found no token -> "clear" then "wait_empty".  Whatever the moment, clear() must succeed and leave nothing behind.
      before, tq = list(ld.deque), ld.locking_queue.qsize()
      j = rng.randint(0, 3)
      status, took, late = racing_clear(ld, j)
      real = ld.locking_queue
      # (7th field: how to replay - the clear carries the injection point, its companion is part of the same racing call)
      crec = ["clear", 0, 0, list(ld.deque), real.qsize(), status, j]
      if took and not late:
        ops.append(["wait", 0, 0, before, tq - 1, "ok", "race"] if before else ["wait_empty", 0, 0, [], 0, "raised:Empty", "race"])
        ops.append(crec)
      elif took:
        # (only if clear() left a token behind: the record of clear() already says so)
        ops.append(crec)
      else:
        ops.append(crec)
        ops.append(["wait_empty", 0, 0, list(ld.deque), real.qsize(), "raised:Empty", "race"])
      if status != "ok":
        break
      continue
    if k == "wait" and len(ld.deque) == 0:
      k = "len"
    rec = [k, 0, 0, [], 0, "ok"]
    try:
      if k == "wait":
        # the consumer woke up (took the wake-up token of the front event) and, before it takes the event, the queue is cleared:
        # one event more than tokens - clear() must still succeed (C16: clear() always succeeds)
        ld.wait(False)
        force = "clear"
      elif k in ("append", "appendleft"):
        nid += 1
        rec[1] = nid
        getattr(ld, k)(nid)
      elif k in ("popleft", "pop"):
        if len(ld.deque) == 0:
          rec[0] = "wait_empty"
          try:
            ld.wait(False)
            rec[5] = "ok"
          except queue.Empty:
            rec[5] = "raised:Empty"
        else:
          ld.wait(False)                  # a pending event must have its wake-up token
          rec[2] = getattr(ld, k)()
      elif k == "clear":
        ld.clear()
      else:
        rec[2] = len(ld)
        if ld.len() != rec[2]:
          rec[5] = "len-mismatch"
    except Exception as ex:  # noqa
      rec[5] = "raised:" + type(ex).__name__
    rec[3] = list(ld.deque)
    rec[4] = ld.locking_queue.qsize()
    ops.append(rec)
    if rec[5] not in ("ok", "raised:Empty"):
      break
  return ops


def _c16_work(args):
  seed, lo, hi = args
  out = []
  for tid in range(lo, hi):
    rng = random.Random((seed << 20) ^ tid * 7919)
    cap = rng.choice([1, 2, 3, 4])
    out.append({"tid": tid, "cap": cap, "ops": _ld_seq_trace(rng, cap, rng.randint(3, 14))})
  return out


def c16(tier):
  import multiprocessing as mp
  from checks import seq
  from harness import gen, seqcheck
  run = common.Run("C16", tier, "model_checking")
  run.assumptions += ["single-threaded histories, plus a consumer taking a wake-up token at any point inside clear() (the other concurrent behaviour of the same queue is C04/C05)",
                      "which older event a full queue gives up is not prescribed: only that the new event is kept at its end and the bound holds"]
  # (M) all operation sequences on the abstract bounded deque with tokens
  mcs = [(2, 6), (3, 5)] if tier == "quick" else [(2, 8), (3, 7), (4, 6)]
  for cap, m in mcs:
    cfg = ("SPECIFICATION SSpec\nCONSTANTS Cap = %d\nMaxOps = %d\nINVARIANT Bounded\nINVARIANT AtMostOnce\nINVARIANT TokenPerEvent\n"
           "INVARIANT FifoWhenNoOverflow\nINVARIANT NothingLost\nPROPERTY NewEventKept\nCHECK_DEADLOCK FALSE\n" % (cap, m))
    r = tlc.run("AOSeq.tla", cfg, workers=8, timeout=3000)
    tlc.need_ok(r, "AOSeq")
    if r.violated:
      raise common.MachineryError("AOSeq.tla violates %s" % r.violated)
    run.add(states=r.distinct, transitions=r.generated, tlc_runs=["AOSeq cap=%d ops<=%d: %d distinct states; Bounded, TokenPerEvent, NewEventKept, FifoWhenNoOverflow hold" % (cap, m, r.distinct)])
  # (B1) recorded op sequences on the real LockingDeque
  n = 4000 if tier == "quick" else 30000
  chunk = (n + 63) // 64
  with mp.get_context("fork").Pool(16) as pool:
    traces = [t for part in pool.map(_c16_work, [(common.seed(), lo, min(n, lo + chunk)) for lo in range(0, n, chunk)]) for t in part]
  total = 0
  for cap in sorted({t["cap"] for t in traces}):
    part = [t for t in traces if t["cap"] == cap]
    path = os.path.join(common.work_dir(), "ldseq_%d.ndjson" % cap)
    with open(path, "w") as f:
      for t in part:
        f.write(json.dumps(t) + "\n")
    r = tlc.run("AOSeqTrace.tla", "SPECIFICATION TSpec\nCONSTANTS Cap = %d\nMaxOps = 0\nINVARIANT Bounded\nCHECK_DEADLOCK FALSE\n" % cap,
                workers="auto", env={"TRACE_FILE": path}, timeout=1800)
    os.unlink(path)
    if not r.ok:
      raise common.MachineryError("AOSeqTrace failed: %s %s" % (r.violated, r.error))
    v = {p["tid"]: p for p in r.printed if isinstance(p, dict) and "tid" in p}
    run.add(states=r.distinct, transitions=r.generated)
    for t in part:
      x = v.get(t["tid"])
      if x is None:
        raise common.MachineryError("LockingDeque op sequence %d not consumed by AOSeqTrace" % t["tid"])
      total += 1
      if "bad" in x:
        op = t["ops"][x["at"] - 1]
        key = "clear-raises" if op[0] == "clear" and "Raised" in x["bad"] else "%s@%s" % ("+".join(sorted(x["bad"])), op[0])
        run.violation(key, "LockingDeque(cap %d) op %d %s: %s" % (cap, x["at"], op, x["bad"]), {"cap": cap, "ops": t["ops"], "verdict": x})
  run.add(traces_validated_against_impl=total, evaluations=total,
          distinct_nontrivial=len({json.dumps([t["cap"], [o[:2] for o in t["ops"]]]) for t in traces}))
  run.sample({"cap": traces[0]["cap"], "ops": traces[0]["ops"]})
  # (B2) the plain deques of queued charts (post_fifo/post_lifo/defer on full queues), validated against Hsm.tla
  P = gen.profile(hosts=(("queued", 1),), p_eff=0.5, live=0.0, clocks=("fine",), nops=(8, 18), caps=(1, 2, 3),
                  w_ops=dict(seq.QOPS, post=40, defer=20, step=15))
  seqcheck.run(run, "C16", 1500 if tier == "quick" else 20000, P,
               attr=lambda v: {"C16"} if set(v.get("bad", [])) & {"Q", "DQ"} else set())
  return run.finish()
