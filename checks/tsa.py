# C27 / C28 / C29: thread-safe attributes (TSA.tla, TSATrace.tla, harness/tsadrive.py)
import json, os, random, multiprocessing as mp
from harness import common, tlc, dsched, tsadrive
from checks.util import trace_validate
from checks.conc import ASSUME_B


def _c27_work(args):
  seed, lo, hi = args
  out = []
  for tid in range(lo, hi):
    rng = random.Random((seed << 21) ^ (tid * 2654435761 % (1 << 32)))
    nt = rng.choice([2, 2, 3])
    progs = {"t%d" % (i + 1): [[rng.randrange(len(tsadrive.C27_FORMS)), rng.randint(1, 3)] for _ in range(rng.randint(1, 2))] for i in range(nt)}
    pol = dsched.RandomPolicy(rng, rng.choice([0.0, 0.4, 0.7])) if tid % 2 else dsched.PCTPolicy(rng, 3, 60)
    r = tsadrive.c27_run(progs, dsched.FairSuffix(pol, 500))
    r["tid"], r["progs_d"] = tid, progs
    out.append(r)
  return out


def _c27_explore(args):
  a, b = args
  results = []

  def execute(prefix):
    progs = {"t1": [a], "t2": [b]}
    r = tsadrive.c27_run(progs, dsched.ReplayPolicy(prefix, fallback=dsched.NoPreemptPolicy()))
    r["progs_d"] = progs
    results.append(r)
    return r["choices"]
  dsched.explore_pb(execute, 3, 600)
  return results


def c27(tier):
  run = common.Run("C27", tier, "model_checking")
  run.assumptions += ASSUME_B + ["pre-emption points: every acquire/release of the attribute's lock and every read/write of the descriptor's private fields",
                                 "statements: read, plain assignment, += -= *= of an attribute x of one object, `x += y` / `y = v` / `y += v` with a second thread-safe "
                                 "attribute y of the same object, and `holder.o.x += v` where o is itself a thread-safe attribute; serializability is judged on the pair (x, y)"]
  for prog, fin in (("ProgDef", "Final"), ("Prog2", "Final2")):
    cfg = ("SPECIFICATION Spec\nCONSTANTS Threads = {\"t1\", \"t2\"}\nProg <- %s\nFixed = TRUE\nINVARIANT NoErr\nINVARIANT %s\n"
           "INVARIANT LockFree\nINVARIANT NoDeadlock\nCHECK_DEADLOCK FALSE\n" % (prog, fin))
    r = tlc.run("TSA.tla", cfg, workers=4, timeout=600)
    tlc.need_ok(r, "TSA")
    if r.violated:
      raise common.MachineryError("TSA.tla (per-thread marker) violates %s" % r.violated)
    run.add(states=r.distinct, transitions=r.generated, tlc_runs=["TSA %s, per-thread marker: %d distinct states; NoErr, serial final value, LockFree, NoDeadlock hold" % (prog, r.distinct)])
  from checks.util import _tlaps_proof
  _tlaps_proof(run, "TSA", "TSA", ["SPECIFICATION Spec\nCONSTANTS Threads = {\"t1\", \"t2\"}\nProg <- %s\nFixed = TRUE\n" % pr for pr in ("ProgDef", "Prog2")],
               "Spec => [](NoErr /\\ LockFree) for any set of threads and any programs of reads, assignments and augmented assignments")
  n = 1500 if tier == "quick" else 30000
  chunk = max(1, (n + 63) // 64)
  nf = len(tsadrive.C27_FORMS)
  pairs = [([f1, 2], [f2, 3]) for f1 in range(nf) for f2 in range(f1, nf) if not (f1 == 0 and f2 == 0)]
  with mp.get_context("fork").Pool(16) as pool:
    recs = [x for part in pool.map(_c27_work, [(common.seed(), lo, min(n, lo + chunk)) for lo in range(0, n, chunk)]) for x in part]
    sysr = [x for part in pool.map(_c27_explore, pairs) for x in part]
  for i, r in enumerate(sysr):
    r["tid"] = n + i
  recs += sysr
  v, t = trace_validate("TSATrace", [{"tid": r["tid"], "kind": "c27", "progs": [r["progs_d"][k] for k in sorted(r["progs_d"])], "init": [1, 2, 3],
                                      "final": r["final"], "errors": r["errors"], "outcome": r["outcome"], "done": r["done"],
                                      "lock_count": r["lock_count"]} for r in recs])
  for r in recs:
    for c in v[r["tid"]].get("bad", []):
      run.violation(c, "execution %d: %s; progs=%s final=%s outcome=%s" % (r["tid"], c, json.dumps(r["progs_d"]), r["final"], r["outcome"]),
                    {"progs": r["progs_d"], "forms": tsadrive.C27_FORMS, "schedule": r["schedule"], "final": r["final"], "errs": r["errs"], "blocked": r["blocked"]})
  run.add(traces_validated_against_impl=len(recs), evaluations=len(recs), states=t.distinct, transitions=t.generated,
          distinct_nontrivial=len({json.dumps([r["progs_d"], r["schedule"]]) for r in recs}), systematic_two_statement_executions=len(sysr))
  run.sample({"progs": recs[0]["progs_d"], "forms": tsadrive.C27_FORMS, "final": recs[0]["final"], "schedule": recs[0]["schedule"][:30]})
  return run.finish()


def _c28_work(args):
  seed, n = args
  return tsadrive.c28_run(seed, n)


def c28(tier):
  run = common.Run("C28", tier, "other")
  forms = tsadrive.c28_statements()
  run.assumptions += ["each statement is on a source line of its own, in a real file (the descriptor reads the caller's source line)",
                      "statements that fail with plain attributes too (division by zero, shifting a float) are outside the domain",
                      "an attribute name inside a string or comment on the same line is outside the domain"]
  n = 120 if tier == "quick" else 2000
  with mp.get_context("fork").Pool(16) as pool:
    seqs = [s for part in pool.map(_c28_work, [(common.seed() * 1000 + k, n) for k in range(16)]) for s in part]
  recs = [{"tid": i, "kind": "c28", "seq": [[r[0], r[1], r[2], r[3], r[4], r[5], r[6], r[7]] for r in s]} for i, s in enumerate(seqs) if s]
  v, t = trace_validate("TSATrace", recs)
  used = set()
  for rec in recs:
    for r in rec["seq"]:
      used.add(r[1])
    for c in v[rec["tid"]].get("bad", []):
      last = rec["seq"][-1]
      run.violation("%s:%s" % (c, last[0]), "after `%s` (%s): %s; lock counts x=%s y=%s outcome=%s values %s" % (last[1], last[0], c, last[5], last[6], last[4], last[7]),
                    {"sequence": rec["seq"], "verdict": v[rec["tid"]]})
  nst = sum(len(r["seq"]) for r in recs)
  run.add(evaluations=nst, distinct_nontrivial=len(used), statement_forms_in_grammar=len(forms), statement_forms_exercised=len(used),
          traces_validated_against_impl=len(recs), states=t.distinct, transitions=t.generated,
          explanation="Every form of the statement grammar (%d forms: reads in expressions and comparisons, augmented assignments to other variables "
                      "for 12 operators, assignments, augmented assignments to the attribute with spacing variants, the _lock form) is executed on real "
                      "objects in random sequences; TLC evaluates on the recorded result of each statement that no lock is held, nothing was raised and the "
                      "values equal what plain attributes give. A grammar enumeration rather than a state-space exploration (DESIGN 7)." % len(forms))
  run.sample({"sequence": recs[0]["seq"]})
  return run.finish()


def _c29_work(args):
  seed, n = args
  return tsadrive.c29_run(seed, n)


def c29(tier):
  run = common.Run("C29", tier, "model_checking")
  run.assumptions += ["three classes with thread-safe attributes (one attribute name in common; the objects of one class compare and hash equal), "
                      "up to 8 operations per history: new, assign, read, `a.attr += b.attr2`"]
  n = 150 if tier == "quick" else 3000
  with mp.get_context("fork").Pool(16) as pool:
    hist = [h for part in pool.map(_c29_work, [(common.seed() * 1000 + k, n) for k in range(16)]) for h in part]
  recs = [{"tid": i, "kind": "c29", "ops": h} for i, h in enumerate(hist)]
  v, t = trace_validate("TSATrace", recs)
  for rec in recs:
    for c in v[rec["tid"]].get("bad", []):
      run.violation(c, "history %s: %s" % (json.dumps(rec["ops"]), c), {"ops": rec["ops"]})
  run.add(traces_validated_against_impl=len(recs), evaluations=len(recs), states=t.distinct, transitions=t.generated,
          distinct_nontrivial=len({json.dumps(r["ops"]) for r in recs}))
  run.sample({"ops": recs[0]["ops"]})
  return run.finish()
