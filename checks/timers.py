# C10 / C11 / C12 / C31: timed sources, cancellation, stop (TimerTrace.tla + harness/sysdrive.py, virtual time)
import json, os, random, multiprocessing as mp
from harness import common, tlc, dsched, sysdrive, syscheck
from checks.conc import ASSUME_B

H = 14
CLAUSE_PROP = {"ShouldReject": "C31", "ShouldAccept": "C31", "RejectedFired": "C31", "FiredAfterCancel": "C11", "FiredAfterStop": "C12",
               "TooManyFires": "C10", "WrongTime": "C10", "WrongEnd": "C10", "WrongTarget": "C10", "MissingFires": "C10",
               "ThreadAlive": "C12", "OtherStopped": "C12", "FabricStopped": "C12", "DispatchAfterStop": "C12",
               "Hang": "C12", "NoProgress": "C12", "Error": "C10", "Harness": "C10"}
PROFILE = {
  "C10": dict(cancel=0.0, stop=0.0, tcaps=(50,), nsrc=(1, 4), stall=0.5, long=0.02),
  "C11": dict(cancel=0.9, stop=0.0, tcaps=(50,), nsrc=(2, 4), stall=0.25, race=0.35),
  "C12": dict(cancel=0.2, stop=1.0, tcaps=(50,), nsrc=(1, 3), stall=0.25),
  "C31": dict(cancel=0.3, stop=0.0, tcaps=(1, 2, 3), nsrc=(3, 6), stall=0.2, race_post=0.5),
}


def gen(rng, P):
  if rng.random() < P.get("long", 0.0):
    # a source asked for MANY posts (more than 256) and left alone: it posts exactly that often and then stops by itself
    n = rng.choice([257, 258, 300])
    kind = rng.choice(["fifo", "lifo"])
    ops = [["start", "a1"], ["tpost", "a1", kind, "A", 1, n, rng.random() < 0.5, 0], ["sleep", n + 12]]
    return {"cap": 40, "tcap": 50, "horizon": n + 8, "aos": [{"name": "a1", "spied": False, "instrumented": True, "handler_ops": {}}],
            "drivers": {"d1": ops}}
  names = ["a1", "a2"][:rng.randint(1, 2)]
  aos = [{"name": nm, "spied": rng.random() < 0.5, "instrumented": True, "handler_ops": {}} for nm in names]
  ops = [["start", nm] for nm in names]
  slots = []
  for k in range(rng.randint(*P["nsrc"])):
    nm = rng.choice(names)
    sig = rng.choice(["A", "B"])
    ops.append(["tpost", nm, rng.choice(["fifo", "lifo"]), sig, rng.choice([1, 2, 3]), rng.choice([0, 1, 2, 3]), rng.random() < 0.6, k])
    slots.append((nm, k, sig))
    if rng.random() < 0.5:
      ops.append(["sleep", rng.randint(1, 3)])
  if rng.random() < P["cancel"]:
    for _ in range(rng.randint(1, 2)):
      nm, k, sig = rng.choice(slots)
      how = rng.choice(["same", "rebuilt"])
      ops.append(["cancel", nm, k, how] if rng.random() < 0.6 else ["cancels", nm, sig, how])
      ops.append(["sleep", rng.randint(1, 3)])
  if rng.random() < P["stop"]:
    nm = rng.choice(names)
    if rng.random() < 0.5:
      # a handler that arms one more timed source (under a signal name of its own) while stop() may already be under way
      [a for a in aos if a["name"] == nm][0]["handler_ops"]["B"] = [["tpost", nm, rng.choice(["fifo", "lifo"]), "C", rng.choice([1, 2]), rng.choice([0, 2, 3]), rng.random() < 0.5, 90]]
      ops.append(["post", nm, "fifo", "B"])
    if rng.random() < 0.3:
      [a for a in aos if a["name"] == nm][0]["handler_ops"]["C"] = [["stop", nm]]
      ops.append(["post", nm, "fifo", "C"])
    else:
      ops.append(["stop", nm])
    if rng.random() < 0.5:
      ops.append(["post", nm, "fifo", "A"])         # posted to a stopped object: must not be dispatched
  drivers = {"d1": ops}
  if rng.random() < P.get("race", 0.0):
    # a second thread cancels by signal name at the very moment the first one starts a source of that name: whichever way the two
    # calls are ordered, a cancel_events made after both have returned must silence that source for good
    nm, k, sig = rng.choice(slots)
    at = 0
    for o in ops:
      if o[0] == "tpost" and o[-1] == k:
        break
      at += o[1] if o[0] == "sleep" else 0
    drivers["d2"] = [["wait_started", nm]] + ([["sleep", at]] if at else []) + [["cancels", nm, sig, rng.choice(["same", "rebuilt"])]]
    ops += [["sleep", rng.randint(1, 2)], ["cancels", nm, sig, "same"]]
  ops.append(["sleep", H + 5])
  if P.get("race_post") and rng.random() < P["race_post"]:
    # a second thread starts timed sources on the same object while the first one does: the capacity test and the registration of a
    # source must be one step (two posts that both see the last free slot must not both be accepted - TimerTrace judges each post at its
    # return against the sources accepted before / possibly accepted by then)
    nm = rng.choice(names)
    d3 = [["wait_started", nm]] + ([["sleep", rng.randint(1, 2)]] if rng.random() < 0.4 else [])
    for q in range(rng.randint(1, 2)):
      d3.append(["tpost", nm, rng.choice(["fifo", "lifo"]), rng.choice(["A", "B"]), rng.choice([1, 2, 3]), rng.choice([0, 1, 2, 3]), rng.random() < 0.6, 100 + q])
    drivers["d3"] = d3 + [["sleep", H + 5]]
  return {"cap": 40, "tcap": rng.choice(P["tcaps"]), "aos": aos, "drivers": drivers}


def _work(args):
  seed, lo, hi, prop = args
  out = []
  for tid in range(lo, hi):
    rng = random.Random((seed << 21) ^ (tid * 2654435761 % (1 << 32)))
    cfg = gen(rng, PROFILE[prop])
    pol = dsched.RandomPolicy(rng, stick=rng.choice([0.0, 0.5, 0.8])) if tid % 2 else dsched.PCTPolicy(rng, 3, 150)
    hz = cfg.get("horizon", H)
    pol.time_limit = hz
    if rng.random() < PROFILE[prop]["stall"] and hz == H:
      # slow threads: a timer, an active object or the driver is held back for 1-3 time units up to 3 times; the clock goes on
      pol = dsched.StallPolicy(pol, rng, p=rng.choice([0.02, 0.05, 0.15]), durations=(1, 2, 3, 4), max_stalls=rng.randint(1, 3),
                               only=rng.choice([("tm",), ("tm", "ao_"), None]))
    fs = dsched.FairSuffix(pol, 2500 if hz == H else 40000, time_limit=hz)
    r = sysdrive.run_one(cfg, fs, 5000 if hz == H else 60000)
    r["cfg"] = cfg
    out.append((tid, r))
  return out


def model_check_timers(run, tier):
  """TLC on the timer / canceller protocol (Timers.tla, the locked variant the code now implements)"""
  for timers, times in ([('{"t1", "t2"}', 2)] if tier == "quick" else [('{"t1", "t2"}', 3), ('{"t1", "t2", "t3"}', 2)]):
    cfg = ("SPECIFICATION FairSpec\nCONSTANTS Timers = %s\nTimes = %d\nVariant = \"locked\"\nINVARIANT NoPostAfterCancelReturned\n"
           "INVARIANT NoDeadlock\nPROPERTY Terminates\nCHECK_DEADLOCK FALSE\n" % (timers, times))
    r = tlc.run("Timers.tla", cfg, workers=4, timeout=3000)
    tlc.need_ok(r, "Timers")
    if r.violated:
      raise common.MachineryError("Timers.tla (locked variant) violates %s" % r.violated)
    run.add(tlc_runs=["Timers %s x %d posts, locked: %d distinct states; NoPostAfterCancelReturned, NoDeadlock, Terminates hold" % (
      timers, times, r.distinct)])
    run.add(states=r.distinct, transitions=r.generated)
  from checks.util import _tlaps_proof
  _tlaps_proof(run, "Timers", "Timers", ["SPECIFICATION Spec\nCONSTANTS Timers = {\"t1\", \"t2\"}\nTimes = 2\nVariant = \"locked\"\n"],
               "Spec => []NoPostAfterCancelReturned for any number of timed sources and any number of posts per source")


def check(prop):
  def run_check(tier):
    run = common.Run(prop, tier, "model_checking")
    if prop in ("C11", "C12"):
      model_check_timers(run, tier)
    run.assumptions += ASSUME_B + ["virtual integer time; in most executions time advances only when no thread can run (maximal progress), in the others up to three "
                                   "injected delays of 1-4 time units hold a runnable thread back while the clock goes on (a slow thread): a post may then be "
                                   "late by at most the delays injected so far, never early; horizon %d" % H,
                                   "cancel/stop calls come from one driver thread (or from the object's own handler); in a third of the C11 executions a second "
                                   "thread calls cancel_events while the first is starting a source of that name (either order of the two calls is accepted, "
                                   "a later cancel_events must then silence the source)"]
    n = 1200 if tier == "quick" else 20000
    chunk = max(1, (n + 63) // 64)
    with mp.get_context("fork").Pool(16) as pool:
      results = [x for part in pool.map(_work, [(common.seed(), lo, min(n, lo + chunk), prop) for lo in range(0, n, chunk)]) for x in part]
    path = os.path.join(common.work_dir(), "timers.ndjson")
    with open(path, "w") as f:
      for tid, r in results:
        started = [e[2] for e in r["ev"] if e[0] == "ret" and e[1] == "start"]
        f.write(json.dumps({"tid": tid, "ev": r["ev"], "tcap": r["cfg"]["tcap"], "aos": [a["name"] for a in r["cfg"]["aos"]],
                            "started": started, "end": {"outcome": r["outcome"], "drivers_done": r["drivers_done"] or r["outcome"] == "quiescent",
                                                        "alive": r["alive"], "horizon": r["cfg"].get("horizon", H)}}) + "\n")
    t = tlc.run("TimerTrace.tla", "SPECIFICATION TSpec\nCHECK_DEADLOCK FALSE\n", workers="auto", env={"TRACE_FILE": path}, timeout=1800)
    os.unlink(path)
    if not t.ok:
      raise common.MachineryError("TimerTrace failed: %s %s" % (t.violated, t.error))
    v = {p["tid"]: p for p in t.printed if isinstance(p, dict) and "tid" in p}
    others, fires = {}, 0
    for tid, r in results:
      x = v.get(tid)
      if x is None:
        raise common.MachineryError("timer trace %d not consumed: %s" % (tid, json.dumps(r["ev"])[:1500]))
      fires += sum(x.get("fires", []))
      for c in x.get("bad", []):
        p = CLAUSE_PROP.get(c, "C10")
        if p == prop:
          run.violation(c, "execution %d rejected at event %d: %s %s fired=%s; d1=%s" % (tid, x["at"], c, json.dumps(x.get("ev"))[:120], x.get("fired"),
                        json.dumps(r["cfg"]["drivers"]["d1"])[:300]),
                        {"cfg": r["cfg"], "schedule": r["schedule"], "verdict": x, "events": r["ev"], "outcome": r["outcome"], "errors": r["errors"][:1],
                         "blocked": r["blocked"]})
        else:
          others[p] = others.get(p, 0) + 1
    # the same executions against System.tla: every queue operation, every dispatch, start/stop (C12: no step after stop() returned;
    # C10: a timed post lands at the end of the queue its kind names)
    sv, st = syscheck.validate(results, 40, lenient_done=True)
    for p2, k in syscheck.file_violations(run, prop, results, sv).items():
      others[p2] = others.get(p2, 0) + k
    run.add(system_level_states=st.distinct, system_level_dispatches=sum(sum(x.get("dispatched", {}).values()) for x in sv.values()))
    if tier != "quick" or prop == "C12":
      run.add(system_trace_binding_demo=syscheck.binding_demo(results, 40, lenient_done=True))
    run.add(traces_validated_against_impl=len(results), evaluations=len(results), states=t.distinct, transitions=t.generated,
            distinct_nontrivial=len({json.dumps([r["cfg"], r["schedule"]]) for _, r in results}), timer_posts_validated=fires,
            executions_with_slow_threads=sum(1 for _, r in results if r.get("stalls")),
            events_validated=sum(len(r["ev"]) for _, r in results))
    if others:
      run.add(rejections_attributed_to_other_properties=others)
    run.sample({"cfg": results[0][1]["cfg"], "events": results[0][1]["ev"][:24]})
    return run.finish()
  return run_check


c10, c11, c12, c31 = check("C10"), check("C11"), check("C12"), check("C31")
