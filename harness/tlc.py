# Run TLC on a module of /verif/spec and parse what it reports.
import os, re, subprocess, time, json, shutil, itertools
from . import common

_seq = itertools.count()   # next() is atomic under the GIL: distinct cfg/metadir names for concurrent runs

JAR = "/opt/veriftools/tla/tla2tools.jar:/opt/veriftools/tla/CommunityModules-deps.jar"


class TlcResult:
  def __init__(self):
    self.ok = False            # finished with no error
    self.violated = None       # name of violated invariant / property, or "deadlock", or None
    self.generated = 0
    self.distinct = 0
    self.depth = 0
    self.out = ""
    self.wall = 0.0
    self.printed = []          # lines printed by PrintT that are JSON strings
    self.coverage = {}         # action name -> (distinct, total)
    self.trace = []            # counterexample: list of (action, {var: text})
    self.error = None


def _parse_trace(out):
  """Counterexample states: 'State n: <Action ...>' followed by '/\\ var = value' lines."""
  states = []
  cur = None
  for line in out.splitlines():
    m = re.match(r"State (\d+): <?([A-Za-z_0-9]+|Initial predicate)", line)
    if m:
      cur = [m.group(2), {}]
      states.append(cur)
      last = None
      continue
    if cur is None:
      continue
    m = re.match(r"/\\ ([A-Za-z_0-9]+) = (.*)$", line)
    if m:
      last = m.group(1)
      cur[1][last] = m.group(2)
    elif line.strip() == "":
      if line == "":
        pass
    elif last and not line.startswith(("Error", "Finished", "The ", "Back to", "State ")) and re.match(r"^\s", line + " "):
      if line.startswith(" ") or line.startswith("\t"):
        cur[1][last] += " " + line.strip()
  return [(a, v) for a, v in states]


def run(module, cfg_text, workers="auto", env=None, args=(), timeout=3600, simulate=None,
        depth=None, coverage=False, seed=None, deadlock=None, dfs=False):
  """module: file name inside spec/ (e.g. 'Hsm.tla'). cfg_text: contents of the cfg."""
  wd = common.work_dir()
  tag = "%s_%d_%d" % (os.path.splitext(module)[0], int(time.time() * 1e6) % 10**9, next(_seq))
  cfg = os.path.join(wd, tag + ".cfg")
  with open(cfg, "w") as f:
    f.write(cfg_text)
  meta = os.path.join(wd, tag + "_meta")
  cmd = ["java", "-XX:+UseParallelGC", "-Xmx8g"]
  if dfs:
    cmd.append("-Dtlc2.tool.queue.IStateQueue=StateDeque")
  cmd += ["-cp", JAR, "tlc2.TLC", "-workers", str(workers), "-metadir", meta,
          "-noGenerateSpecTE", "-config", cfg]
  if simulate:
    cmd += ["-simulate", simulate]
  if depth:
    cmd += ["-depth", str(depth)]
  if coverage:
    cmd += ["-coverage", "1"]
  if seed is not None:
    cmd += ["-seed", str(seed)]
  if deadlock is False:
    cmd += ["-deadlock"]     # -deadlock = do NOT check deadlock
  cmd += list(args) + [module]
  e = dict(os.environ)
  e.pop("JAVA_TOOL_OPTIONS", None)
  if env:
    e.update({k: str(v) for k, v in env.items()})
  r = TlcResult()
  t0 = time.time()
  try:
    p = subprocess.run(cmd, cwd=common.SPEC, env=e, capture_output=True, text=True, timeout=timeout)
    out = p.stdout + p.stderr
    rc = p.returncode
  except subprocess.TimeoutExpired as ex:
    out = (ex.stdout.decode() if isinstance(ex.stdout, bytes) else (ex.stdout or "")) + "\nTIMEOUT"
    rc = -9
    subprocess.run(["pkill", "-f", meta], capture_output=True)
  r.wall = time.time() - t0
  r.out = out
  shutil.rmtree(meta, ignore_errors=True)
  m = re.findall(r"(\d+) states generated, (\d+) distinct states found", out)
  if m:
    r.generated, r.distinct = int(m[-1][0]), int(m[-1][1])
  m = re.search(r"The depth of the complete state graph search is (\d+)", out)
  if m:
    r.depth = int(m.group(1))
  for line in out.splitlines():
    if line.startswith('"{') or line.startswith('"['):
      try:
        r.printed.append(json.loads(json.loads(line)))
      except Exception:
        pass
  if coverage:
    for m in re.finditer(r"<([A-Za-z_0-9]+) line \d+, col \d+ to line \d+, col \d+ of module [A-Za-z_0-9]+>: (\d+):(\d+)", out):
      a, d, t = m.group(1), int(m.group(2)), int(m.group(3))
      od, ot = r.coverage.get(a, (0, 0))
      r.coverage[a] = (od + d, ot + t)
  m = re.search(r"Invariant ([A-Za-z_0-9]+) is violated", out)
  if m:
    r.violated = m.group(1)
  elif "Deadlock reached" in out:
    r.violated = "deadlock"
  elif re.search(r"Temporal properties were violated", out):
    r.violated = "temporal"
  else:
    m = re.search(r"Action property ([A-Za-z_0-9]+) is violated", out) or \
        re.search(r"[Pp]roperty ([A-Za-z_0-9]+) is violated", out)
    if m:
      r.violated = m.group(1)
  if r.violated:
    r.trace = _parse_trace(out)
  finished = "Model checking completed. No error has been found." in out or \
             (simulate and rc in (0, -9) and not r.violated and "Error:" not in out)
  if finished and not r.violated:
    r.ok = True
  elif not r.violated:
    m = re.search(r"Error: (.*)", out)
    r.error = (m.group(1) if m else "tlc rc=%d" % rc) + " :: " + out[-1500:]
  return r


def need_ok(r, what):
  if r.error or (not r.ok and not r.violated):
    raise common.MachineryError("TLC failed on %s: %s" % (what, r.error))
  return r
