# Generic driver for the sequential (Harness A) properties: generate charts+ops, run the real
# code, validate the recorded traces with TLC (spec/HsmTrace.tla), attribute failing clauses.
import random, multiprocessing as mp, json
from . import common, chartgen, gen, hsmtrace


def attribute(v):
  """failing clauses of one rejected trace -> set of property ids"""
  props = set()
  k, kind = v.get("k"), v.get("kind")
  step_prop = {"start": "C03", "tran": "C01", "stay": "C02", "is_in": "C22", "child_state": "C22"}.get(
    kind, {"start": "C03", "dispatch": "C01", "next_rtc": "C01", "is_in": "C22", "child_state": "C22"}.get(k, "C14"))
  for c in v.get("bad", []):
    if c in ("Calls", "Cur"):
      props.add(step_prop)
    elif c == "Outcome":
      props.add("C24" if v.get("exp", {}).get("outcome", "ok") != "ok" and k != "child_state" else step_prop)
    elif c == "Marks":
      props.add("C15" if k == "recall" else "C14")
    elif c in ("Name", "CurState"):
      props.add("C23")
    elif c == "Ret":
      props.add({"next_rtc": "C14", "recall": "C15"}.get(k, "C22"))
    elif c in ("Instr", "Rtc", "Full"):
      props.add("C19")
    elif c == "Trc":
      props.add("C20")
    elif c in ("LiveS", "LiveT"):
      props.add("C21")
    elif c in ("Q", "Did", "Circuit"):
      props.add("C14")
    elif c == "DQ":
      props.add("C15")
  return props


def _work(args):
  seed, lo, hi, P, maker = args
  out = []
  for tid in range(lo, hi):
    rng = random.Random((seed << 24) ^ (tid * 2654435761 % (1 << 32)))
    if maker:
      chart, ops = maker(rng, P, tid, seed) if getattr(maker, "wants_tid", False) else maker(rng, P)
    else:
      chart = gen.gen_chart(rng, P)
      ops = gen.gen_ops(rng, chart, P)
    ev = chartgen.run_chart(chart, ops)
    out.append({"tid": tid, "chart": chart, "ops": ops, "ev": ev})
  return out


def record(seed, n, P, maker=None, procs=16):
  chunk = max(1, (n + procs * 4 - 1) // (procs * 4))
  jobs = [(seed, lo, min(n, lo + chunk), P, maker) for lo in range(0, n, chunk)]
  ctx = mp.get_context("fork")
  with ctx.Pool(procs) as pool:
    res = pool.map(_work, jobs)
  return [t for r in res for t in r]


def nontrivial_key(t):
  """distinct-nontrivial rule: a trace counts when it contains >= 1 transition step; key = chart shape + ops"""
  c = t["chart"]
  return json.dumps([c["par"], c["init"], c["react"], c["host"], c["spied"], t["ops"]])


def run(run, prop, n, P, maker=None, relevant=None, batch=1500, is_nontrivial=None, attr=None):
  """run: common.Run.  Records n traces, validates, files violations attributed to `prop`."""
  traces = record(common.seed(), n, P, maker)
  states = trans = 0
  others = {}
  seen = set()
  nontriv = 0
  ops_total = 0
  for i in range(0, len(traces), batch):
    part = traces[i:i + batch]
    verdicts, r = hsmtrace.validate([{"tid": t["tid"], "chart": t["chart"], "ev": t["ev"]} for t in part],
                                    focus=(prop if attr is None else ""))
    states += r.distinct
    trans += r.generated
    for t in part:
      v = verdicts[t["tid"]]
      ops_total += len(t["ev"])
      if v.get("stuck"):
        raise common.MachineryError("trace %d not consumed by the trace spec: %s" % (t["tid"], json.dumps(t)[:2000]))
      if is_nontrivial is None or is_nontrivial(t):
        k = nontrivial_key(t)
        if k not in seen:
          seen.add(k)
          nontriv += 1
      if "bad" in v:
        props = (attr or attribute)(v)
        if prop in props and (relevant is None or relevant(t, v)):
          key = "%s@%s:%s" % ("+".join(sorted(v["bad"])), v.get("k"), v.get("kind"))
          run.violation(key, "trace %d rejected at op %d (%s): clauses %s" % (t["tid"], v["at"], v.get("k"), v["bad"]),
                        {"chart": t["chart"], "ops": t["ops"], "verdict": v, "observed": t["ev"][v["at"] - 1]})
        for p in props - {prop}:
          others[p] = others.get(p, 0) + 1
  run.add(traces_validated_against_impl=len(traces), states=states, transitions=trans, evaluations=len(traces),
          distinct_nontrivial=nontriv, ops_validated=ops_total)
  if others:
    run.add(rejections_attributed_to_other_properties=others)
  for t in traces[:2]:
    run.sample({"chart": {k: t["chart"][k] for k in ("n", "par", "init", "react", "host", "spied")}, "ops": t["ops"],
                "calls_of_last_op": [c[:3] for c in t["ev"][-1]["log"]][:12]})
  return traces
