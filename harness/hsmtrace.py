# code -> spec: validate recorded chart executions against spec/HsmTrace.tla in one TLC run.
import json, os
from . import common, tlc

INVARIANTS = ["QueuesBounded", "AtMostOnce", "QueueIdsDistinct", "DeferredNotDispatched",
              "TraceEndsInCur", "RingsBounded"]
CFG = "SPECIFICATION TSpec\nCHECK_DEADLOCK FALSE\n" + "".join("INVARIANT %s\n" % i for i in INVARIANTS) + \
      "PROPERTY WellNested\nPROPERTY DispatchedWasFront\n"


def validate(traces, workers="auto", timeout=1800, focus=""):
  """traces: list of {"tid": int, "chart": {...}, "ev": [...]}.
  Returns (verdicts, tlcresult); verdicts: tid -> {"done": n} | {"at":, "bad": [...], ...} | {"stuck": True}"""
  wd = common.work_dir()
  path = os.path.join(wd, "hsm_%d.ndjson" % (id(traces) % 10**8))
  with open(path, "w") as f:
    for t in traces:
      f.write(json.dumps(t) + "\n")
  r = tlc.run("HsmTrace.tla", CFG, workers=workers, env={"TRACE_FILE": path, "FOCUS": focus}, timeout=timeout)
  os.unlink(path)
  verdicts = {}
  for p in r.printed:
    if isinstance(p, dict) and "tid" in p:
      verdicts[p["tid"]] = p
  if r.violated:
    # a state invariant of Hsm.tla failed on a recorded execution's model state: machinery or spec problem
    raise common.MachineryError("Hsm invariant %s violated during trace validation:\n%s" % (r.violated, r.out[-3000:]))
  if not r.ok:
    raise common.MachineryError("TLC trace validation failed: %s" % r.error)
  for t in traces:
    if t["tid"] not in verdicts:
      verdicts[t["tid"]] = {"tid": t["tid"], "stuck": True}
  return verdicts, r
