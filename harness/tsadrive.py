# Harness for miros.thread_safe_attributes (C27 concurrency, C28 statement grammar, C29 per-instance values).
# The descriptor reads the caller's SOURCE LINE, so every statement lives on its own line of a generated module file.
import os, sys, json, random, importlib.util, itertools
from . import common, dsched, shims

OPS = ["+", "-", "*", "//", "%", "**", ">>", "<<", "&", "^", "|", "/"]


def _write_module(path, stmts):
  """stmts: list of source lines using `a`, `b` (instances), `t` (a local), `v` (an int)"""
  lines = ["from miros.thread_safe_attributes import MetaThreadSafeAttributes", "",
           "class Obj(metaclass=MetaThreadSafeAttributes):", "  _attributes = ['x', 'y', 'l']", "",
           "class Other(metaclass=MetaThreadSafeAttributes):", "  _attributes = ['x']", "",
           "class Holder(metaclass=MetaThreadSafeAttributes):", "  _attributes = ['o']", "",
           "class Settings:", "  # a plain base class that happens to define a constant of the same name", "  x = 3", "",
           "class Ctl(Settings, metaclass=MetaThreadSafeAttributes):", "  _attributes = ['x']", "",
           "class Eq(metaclass=MetaThreadSafeAttributes):", "  # objects that compare (and hash) equal are still different objects",
           "  _attributes = ['x']", "  def __init__(self, key=1):", "    self.key = key",
           "  def __eq__(self, other):", "    return isinstance(other, Eq) and other.key == self.key",
           "  def __hash__(self):", "    return hash(self.key)", "",
           "def ident(z):", "  return z", "",
           "def bump(o):", "  # a helper that itself updates the attribute of the object it is given", "  o.x += 1", "  return 1", ""]
  for k, s in enumerate(stmts):
    lines += ["def stmt_%d(a, b, t, v):" % k, "  _lock = None", "  " + s, "  return t, _lock", ""]
  with open(path, "w") as f:
    f.write("\n".join(lines) + "\n")


def load_statements(stmts, sched=None):
  """returns the generated module; with a scheduler the descriptor's lock and private fields are yield points"""
  import miros.thread_safe_attributes as mt
  wd = common.work_dir()
  path = os.path.join(wd, "tsa_stmts_%d_%d.py" % (os.getpid(), random.randrange(10**9)))
  _write_module(path, stmts)
  saved = {"RLock": mt.RLock, "ThreadSafeAttribute": mt.ThreadSafeAttribute}
  try:
    if sched is not None:
      mt.RLock = shims.SRLock
      base = mt.ThreadSafeAttribute
      QUIET = ("_lock", "_initial_value", "_name")

      class YTSA(base):
        def __getattribute__(self, n):
          if n.startswith("_") and not n.startswith("__") and n not in QUIET and dsched.CUR is not None:
            dsched.CUR.point("rd" + n, "tsa")
          return base.__getattribute__(self, n)

        def __setattr__(self, n, v):
          if n.startswith("_") and not n.startswith("__") and n not in QUIET and dsched.CUR is not None:
            dsched.CUR.point("wr" + n, "tsa")
          return base.__setattr__(self, n, v)
      mt.ThreadSafeAttribute = YTSA
    spec = importlib.util.spec_from_file_location("tsa_stmts_%d" % random.randrange(10**9), path)
    mod = importlib.util.module_from_spec(spec)
    spec.loader.exec_module(mod)
    mod.__path_of_file__ = path
    return mod
  finally:
    mt.ThreadSafeAttribute = saved["ThreadSafeAttribute"]
    if sched is None:
      mt.RLock = saved["RLock"]
    else:
      # a lock the code creates LATER (lazily, one per object) must be a cooperative shim too, or a thread would block for real while
      # it holds the baton: the shim stays installed until the run's own finally restores it (restore_locks)
      mod.__saved_rlock__ = saved["RLock"]


def restore_locks(mod):
  import miros.thread_safe_attributes as mt
  r = getattr(mod, "__saved_rlock__", None)
  if r is not None:
    mt.RLock = r


def lock_of(mod, cls="Obj", attr="x"):
  d = getattr(mod, cls).__dict__[attr]
  return object.__getattribute__(d, "_lock")


def lock_state(lk):
  """(held count, owner) of a real RLock or of the shim"""
  if isinstance(lk, shims.SRLock):
    return lk.count, lk.owner or ""
  r = repr(lk)      # <unlocked _thread.RLock object owner=0 count=0 at ...>
  import re
  m = re.search(r"owner=(\d+) count=(\d+)", r)
  return (int(m.group(2)), m.group(1) if int(m.group(2)) else "") if m else (0 if "unlocked" in r else 1, "")


# ------------------------------------------------------------------ C27
C27_FORMS = [("read", "t = a.x"), ("set", "a.x = v"), ("aug+", "a.x += v"), ("aug-", "a.x -= v"), ("aug*", "a.x *= v"),
             ("aug+y", "a.x += a.y"),          # two thread-safe attributes on one line
             ("sety", "a.y = v"), ("augy", "a.y += v"),
             ("aug+nested", "b.o.x += v"),     # b.o is a thread-safe attribute holding `a`: x is reached through another attribute
             ("aug+other", "b.p.x += v"), ("set-other", "b.p.x = v")]   # the same attribute of ANOTHER object of the same class (b.p, a plain field)


def c27_run(progs, policy, max_steps=800):
  """progs: {thread: [[form_index, v], ...]} - all on the same instance's attribute x"""
  sched = dsched.Sched(policy, max_steps)
  old = dsched.CUR
  dsched.CUR = sched
  try:
    mod = load_statements([s for _, s in C27_FORMS], sched)
    a, b = mod.Obj(), mod.Holder()
    dsched.CUR = None
    a.x = 1
    a.y = 2
    b.o = a
    a2 = mod.Obj()
    a2.x = 3
    b.p = a2
    dsched.CUR = sched

    def worker(ops):
      for k, v in ops:
        getattr(mod, "stmt_%d" % k)(a, b, 0, v)
    for t, ops in sorted(progs.items()):
      sched.spawn(t, worker, ops)
    out = sched.run()
    lks = [lock_of(mod), lock_of(mod, "Obj", "y"), lock_of(mod, "Holder", "o")]
    dsched.CUR = None
    final = [-1, -1, -1]
    if all(lk.owner is None for lk in lks):
      fx, fy, fx2 = a.x, a.y, a2.x
      final = [fx if isinstance(fx, int) else -1, fy if isinstance(fy, int) else -1, fx2 if isinstance(fx2, int) else -1]
    # locks the code may keep elsewhere (one per object) count too
    extra = [v for o in (a, b, a2) for v in getattr(o, "__dict__", {}).values() if isinstance(v, shims.SRLock)]
    return {"outcome": out, "final": final if not any(lk.owner is not None for lk in extra) else [-1, -1, -1], "errors": len(sched.errors), "errs": sched.errors[:1],
            "done": all(vt.state == "done" for vt in sched.threads), "lock_count": sum(lk.count for lk in lks + extra), "schedule": [c[0] for c in sched.choices],
            "choices": list(sched.choices), "blocked": sched.blocked()}
  finally:
    sched.teardown()
    dsched.CUR = old
    try:
      restore_locks(mod)
    except NameError:
      pass


# ------------------------------------------------------------------ C28
def c28_statements():
  """(kind, source) for the grammar of statements that use a thread-safe attribute"""
  out = []
  cmpops = ["<", "<=", ">", ">=", "==", "!="]
  for c in cmpops:
    out += [("read-cmp", "t = a.x %s v" % c), ("read-cmp", "t = (a.x%sv)" % c), ("read-cmp", "t = 1 if a.x %s v else 0" % c),
            ("read-cmp", "t = a.x %s a.y" % c)]
  out += [("read", "t = a.x"), ("read", "t = a.x + v"), ("read", "t = ident(a.x)"), ("read", "t = [a.x, a.y][0]"), ("read", "t = -a.x"),
          ("read", "t = a.x + a.x"), ("read", "t = b.x + a.x")]
  for o in OPS:
    rhs = "(a.x or 1)" if o in ("//", "%", "/") else "(a.x % 3)" if o in ("**", ">>", "<<") else "a.x"
    out += [("other-aug", "t %s= %s" % (o, rhs)), ("other-aug", "t%s=%s" % (o, rhs))]
  out += [("set", "a.x = v"), ("set", "a.x=v"), ("set", "a.x = a.y"), ("set", "a.x = a.x + v"), ("set", "a.y = a.x <= v"), ("set", "b.x = a.x")]
  for o in OPS:
    val = "(v % 3 + 1)" if o in ("//", "%", "/", "**", ">>", "<<") else "v"
    out += [("aug", "a.x %s= %s" % (o, val)), ("aug", "a.x%s=%s" % (o, val)), ("aug", "a.x  %s=  %s" % (o, val))]
  out += [("aug", "a.x += a.y"), ("aug", "a.x += b.x"), ("aug-self", "a.x += a.x")]
  # the right-hand side calls a helper that itself makes an augmented assignment to the attribute (of another object, of the same object)
  out += [("aug-nested", "a.x += bump(b)"), ("aug-nested", "a.x += bump(a)"), ("read-nested", "t = a.x + bump(b)"), ("set-nested", "a.x = bump(b)")]
  # the attribute holds a container: statements that read it and then update an ITEM of the container in place (no assignment to
  # the attribute itself follows)
  out += [("item-aug", "a.l[0] += v"), ("item-aug", "a.l[1] -= v"), ("item-read", "t = a.l[0] + v"), ("item-set", "a.l[v % 3] = t"),
          ("item-aug", "a.l[a.x % 3] += 1")]
  out += [("lock", "_, _lock = a.x")]
  return out


def c28_run(seed, n):
  """single thread: sequences of statements; after each one the attribute's lock must be free and the value right"""
  rng = random.Random(seed)
  forms = c28_statements()
  mod = load_statements([s for _, s in forms])
  recs = []
  for _ in range(n):
    a, b = mod.Obj(), mod.Obj()
    a.x, a.y, b.x = rng.randint(0, 5), rng.randint(0, 5), rng.randint(1, 5)
    a.l = [1, 2, 3]
    seq = []
    for _ in range(rng.randint(1, 5)):
      k = rng.randrange(len(forms))
      v, t = rng.randint(0, 4), rng.randint(1, 9)
      kind, src = forms[k]
      sh = {"ax": a.x, "ay": a.y, "bx": b.x, "al": list(a.l)}
      class P:           # plain object with the same values: what ordinary Python attributes would do
        pass
      pa, pb = P(), P()
      pa.x, pa.y, pb.x, pa.l = sh["ax"], sh["ay"], sh["bx"], sh["al"]
      rec = [kind, src, v, t, "ok", 0, 0, "", 0, 0]
      try:
        def plain_bump(o):
          o.x += 1
          return 1
        env = {"a": pa, "b": pb, "t": t, "v": v, "ident": (lambda z: z), "bump": plain_bump, "_lock": None, "_": None}
        if kind == "lock":
          exp_t = t
        else:
          exec(src, {}, env)
          exp_t = env["t"]
        exp = (pa.x, pa.y, pb.x, exp_t, list(pa.l))
      except Exception as ex:  # noqa
        continue          # the statement fails with plain attributes too: outside the domain ("after the statement finishes")
      try:
        rt, lk = getattr(mod, "stmt_%d" % k)(a, b, t, v)
        if kind == "lock" and lk is not None:
          pass
        got = (a.x, a.y, b.x, rt, list(a.l))
      except Exception as ex:  # noqa
        got = ("raise", type(ex).__name__)
        rec[4] = "raised:" + type(ex).__name__
      cnts = [lock_state(lock_of(mod, "Obj", "x"))[0], lock_state(lock_of(mod, "Obj", "y"))[0] + lock_state(lock_of(mod, "Obj", "l"))[0]]
      rec[5], rec[6] = cnts[0], cnts[1]
      rec[7] = "same" if [float(z) if isinstance(z, (int, float, bool)) else z for z in got] == [float(z) if isinstance(z, (int, float, bool)) else z for z in exp] else "differs:%s!=%s" % (got, exp)
      seq.append(rec)
      if cnts[0] or cnts[1] or rec[4] != "ok":
        mod = load_statements([s for _, s in forms])      # the descriptors are in an unknown state: start from fresh classes
        break
    recs.append(seq)
  return recs


# ------------------------------------------------------------------ C29
def make_copy(obj, clone):
  import copy
  if not clone:
    return copy.copy(obj)
  new = type(obj).__new__(type(obj))
  new.__dict__.update(obj.__dict__)
  return new


def c29_run(seed, n):
  rng = random.Random(seed)
  AUG = {("x", "x"): 0, ("x", "y"): 1, ("y", "x"): 2, ("y", "y"): 3}
  mod = load_statements(["a.x += b.x", "a.x += b.y", "a.y += b.x", "a.y += b.y"])
  recs = []
  for _ in range(n):
    insts, ops = {}, []
    for _ in range(rng.randint(2, 8)):
      k = rng.choice(["new", "new", "set", "set", "get", "get", "aug", "aug", "copy"])
      if k == "copy" and len(insts) >= 1:
        # another way an instance comes into being: a shallow copy of an existing one (copy.copy, or the clone idiom
        # cls.__new__(cls) + __dict__.update); it starts with the values of the original and is independent of it from then on
        src = rng.choice(sorted(insts))
        nm = "%s%d" % (src[0], len(insts) + 1)
        try:
          insts[nm] = make_copy(insts[src], rng.random() < 0.5)
          ops.append(["copy", nm, type(insts[nm]).__name__, "", 0, "ok", src, ""])
        except Exception as ex:  # noqa
          ops.append(["copy", nm, type(insts[src]).__name__, "", 0, "raised:" + type(ex).__name__, src, ""])
        continue
      if k == "copy":
        k = "new"
      if k == "aug" and len(insts) >= 1:
        # `a.attr += b.attr2` on one line, a and b any two objects (possibly the same one, possibly of different classes)
        na, nb = rng.choice(sorted(insts)), rng.choice(sorted(insts))
        aa = "x" if type(insts[na]).__name__ in ("Other", "Eq", "Ctl") else rng.choice(["x", "y"])
        ab = "x" if type(insts[nb]).__name__ in ("Other", "Eq", "Ctl") else rng.choice(["x", "y"])
        try:
          getattr(mod, "stmt_%d" % AUG[(aa, ab)])(insts[na], insts[nb], 0, 0)
          ops.append(["aug", na, type(insts[na]).__name__, aa, getattr(insts[na], aa), "ok", nb, ab])
        except Exception as ex:  # noqa
          ops.append(["aug", na, type(insts[na]).__name__, aa, 0, "raised:" + type(ex).__name__, nb, ab])
        continue
      if k == "aug":
        k = "new"
      if k == "new" or not insts:
        cls = rng.choice(["Obj", "Other", "Eq", "Ctl"])
        nm = "%s%d" % (cls[0].lower(), len(insts) + 1)
        insts[nm] = getattr(mod, cls)()
        ops.append(["new", nm, cls, "", 0, "ok"])
        continue
      nm = rng.choice(sorted(insts))
      attr = "x" if nm.startswith("o") and nm[1:].isdigit() and type(insts[nm]).__name__ == "Other" else rng.choice(["x", "y"])
      if type(insts[nm]).__name__ in ("Other", "Eq", "Ctl"):
        attr = "x"
      try:
        if k == "set":
          v = rng.randint(1, 9)
          setattr(insts[nm], attr, v)
          ops.append(["set", nm, type(insts[nm]).__name__, attr, v, "ok"])
        else:
          ops.append(["get", nm, type(insts[nm]).__name__, attr, getattr(insts[nm], attr), "ok"])
      except Exception as ex:  # noqa
        ops.append([k, nm, type(insts[nm]).__name__, attr, 0, "raised:" + type(ex).__name__])
    recs.append(ops)
  return recs
