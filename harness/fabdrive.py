# Harness B driver for the ActiveFabric alone: client queues, subscribe/publish/start/stop/clear
# calls from driver threads, the two delivery threads - all under the deterministic scheduler.
import json, random, os
from . import common, dsched, shims, tlc

SIGS = ["SA", "SB"]


def gen_scenario(rng, P=None):
  """driver programs: list of threads, each a list of API calls"""
  P = P or {}
  if P.get("bad") and rng.random() < 0.2:
    # fault injection (C13): a client queue without append() kills the delivery thread of one kind; is_alive() must say so
    # and start() must bring back exactly the missing thread.  `settle` = wait until no other thread can run.
    sig, other, kind = rng.choice([("SA", "SB"), ("SB", "SA")]) + (rng.choice(["fifo", "lifo"]),)
    main = [["start"], ["sub", 0, sig, "fifo"], ["sub", 1, other, rng.choice(["fifo", "lifo"])], ["badsub", sig, kind], ["pub", sig, 1],
            ["settle"], ["alive"], ["start"], ["settle"], ["alive"]]
    if rng.random() < 0.5:
      main += [["start"], ["settle"], ["alive"]]
    main += [["pub", other, 1], ["settle"], ["stop"], ["settle"], ["alive"], ["start"], ["alive"]]
    return {"nq": 2, "main": main, "pub2": [], "equal_queues": rng.random() < 0.5, "pre_start": False}
  if P.get("bad") and rng.random() < 0.12:
    # fault injection (C13): the process is out of threads for a moment, so that start() fails after none or one of the two delivery
    # threads has been started; the next start() must complete the pair and never add a second thread of a kind
    sig = rng.choice(SIGS)
    main = [["start"], ["stop"], ["settle"]] if rng.random() < 0.4 else []
    main += [["sub", 0, sig, "fifo"], ["sub", 1, sig, "lifo"], ["start_fault", rng.choice([1, 2, 2])], ["alive"]]
    if rng.random() < 0.3:
      main += [["start_fault", rng.choice([1, 2])], ["alive"]]
    main += [["start"], ["settle"], ["alive"], ["pub", sig, 1], ["settle"], ["stop"], ["settle"], ["alive"], ["start"], ["alive"]]
    return {"nq": 2, "main": main, "pub2": [], "equal_queues": rng.random() < 0.5, "pre_start": False}
  if P.get("resub") and rng.random() < P["resub"]:
    # a queue subscribes AGAIN while publications of that signal are being delivered to it and to the queues registered after it
    sig, kind = rng.choice(SIGS), rng.choice(["fifo", "lifo"])
    main = [["start"]] + [["sub", i, sig, kind] for i in range(3)] + [["pub", sig, 1]]
    main += [["sub", rng.choice([0, 0, 1]), sig, kind]]
    if rng.random() < 0.5:
      main += [["pub", sig, 1], ["sub", rng.choice([0, 1]), sig, kind]]
    main += [["settle"], ["alive"]]
    return {"nq": 3, "main": main, "pub2": [["pub", sig, 1]] * rng.randint(0, 2), "equal_queues": rng.random() < 0.5, "pre_start": False}
  nq = rng.randint(2, 3)
  ops = []
  started = False
  n = rng.randint(P.get("min_ops", 4), P.get("max_ops", 10))
  for _ in range(n):
    k = rng.choices(["sub", "pub", "start", "stop", "clear", "alive"],
                    P.get("weights", [30, 40, 8, 6, 2, 6]))[0]
    if k == "sub":
      ops.append(["sub", rng.randrange(nq), rng.choice(SIGS), rng.choice(["fifo", "lifo", "fifo"])])
    elif k == "pub":
      ops.append(["pub", rng.choice(SIGS), rng.choice(P.get("prios", [1, 1, 2, 3]))])
    elif k == "start":
      ops.append(["start"])
      started = True
    elif k == "stop":
      ops.append(["stop"])
      started = False
    elif k == "clear":
      ops.append(["clear"])
    else:
      ops.append(["alive"])
  if not started:
    ops.append(["start"])
  ops.append(["alive"])
  # a second thread that only publishes (active objects publish from their own threads)
  pubs = [["pub", rng.choice(SIGS), rng.choice(P.get("prios", [1, 1, 2, 3]))] for _ in range(rng.randint(0, P.get("max_pub2", 3)))]
  scen = {"nq": nq, "main": ops, "pub2": pubs, "equal_queues": rng.random() < 0.7, "pre_start": rng.random() < 0.5}
  if P.get("long_lived") and rng.random() < P["long_lived"]:
    # a process that has been publishing for a long time: the fabric's event counter is near a power of two
    scen["count_start"] = rng.choice([2**15, 2**16, 2**31, 2**32, 2**63]) - rng.randint(1, 4)
  return scen


class FabRun:
  def __init__(self, scen, policy, max_steps=2500):
    self.scen, self.policy = scen, policy
    self.sched = dsched.Sched(dsched.NoPreemptPolicy(), max_steps)
    self.events = []
    self.eid = 0

  def counts(self):
    nf = sum(1 for vt in self.sched.threads if vt.name.startswith("fab_fifo") and vt.state != "done")
    nl = sum(1 for vt in self.sched.threads if vt.name.startswith("fab_lifo") and vt.state != "done")
    return nf, nl

  def emit(self, rec):
    nf, nl = self.counts()
    self.events.append(rec + [nf, nl])

  def reg(self, kind, sig):
    d = self.af.fifo_subscriptions if kind == "fifo" else self.af.lifo_subscriptions
    return [self.qname.get(id(q), "?") for q in d.get(sig, [])]

  def driver(self, name, ops):
    from miros.event import Event
    af = self.af
    for op in ops:
      k = op[0]
      if k == "sub":
        q = self.queues[op[1]]
        self.emit(["subcall", "q%d" % op[1], op[2], op[3]])
        af.subscribe(q, Event(signal=op[2]), queue_type=op[3])
        self.emit(["sub", "q%d" % op[1], op[2], op[3], self.reg(op[3], op[2])])
      elif k == "settle":
        sc, mevt = self.sched, self.sched.me()
        sc.point("settle", "", (), enabled=lambda: all(
          vt is mevt or vt.state == "done" or vt.pending[0] == "settle" or (not vt.is_enabled() and not getattr(vt, "stalled", False)) for vt in sc.threads))
      elif k == "badsub":
        af.subscribe(self.badq, Event(signal=op[1]), queue_type=op[2])
        self.poisoned.add(op[2])
        self.emit(["sub", "qbad", op[1], op[2], self.reg(op[2], op[1])])
      elif k == "pub":
        self.eid += 1
        e = Event(signal=op[1], payload=self.eid)
        self.emit(["pubcall", e.payload, op[1], op[2]])
        af.publish(e, priority=op[2])
        self.emit(["pubret", e.payload, op[1], op[2]])
      elif k == "start":
        self.emit(["call", "start", "", ""])
        af.start()
        self.emit(["ret", "start", "", ""])
      elif k == "start_fault":
        # start() while the process is (for a moment) out of threads: the op[1]-th attempt to start a thread fails.  start() may then
        # raise; whatever it did start is still the fabric's, and a later start() must not add a second thread of a kind
        self.emit(["call", "start", "", ""])
        self.sched.fail_thread_start = op[1]
        try:
          af.start()
          self.emit(["ret", "start", "", ""])
        except RuntimeError as ex:
          if "can't start new thread" not in str(ex):
            raise
          self.emit(["ret", "startraised", "", ""])
        finally:
          self.sched.fail_thread_start = 0
      elif k == "stop":
        self.emit(["call", "stop", "", ""])
        af.stop()
        self.emit(["ret", "stop", "T" if self.af.fabric_task_event.flag else "F", ""])
      elif k == "clear":
        af.clear()
        self.fix_names()
        self.emit(["clear", "", "", ""])
      elif k == "alive":
        r = af.is_alive()
        self.emit(["alive", "T" if r else "F", "", ""])
        self.emit(["single", self.not_single(), "", ""])

  def singles(self):
    """the process-wide singletons, requested the way a client does"""
    import miros.event as mev
    import miros.activeobject as ma
    return {"ActiveFabric": ma.ActiveFabric(), "FiberThreadEvent": ma.FiberThreadEvent(), "InstrumentionWriter": ma.InstrumentionWriter(),
            "Signal": mev.Signal(), "ReturnStatus": mev.ReturnStatus()}

  def not_single(self):
    """C30 (for the life of the process): names of the singletons that no longer yield the instance they yielded at first"""
    now = self.singles()
    return ",".join(sorted(n for n in now if now[n] is not self.first[n]))

  def fix_names(self):
    self.af.fifo_fabric_queue.vname = "pq_fifo"
    self.af.lifo_fabric_queue.vname = "pq_lifo"

  def run(self):
    sched, scen = self.sched, self.scen
    res = {}
    with shims.installed(sched) as ma:
      try:
        def name_for_thread(t):
          nm = getattr(getattr(t, "_target", None), "__name__", "")
          base = {"thread_runner_fifo": "fab_fifo", "thread_runner_lifo": "fab_lifo"}.get(nm)
          if base:
            k = sum(1 for vt in sched.threads if vt.name.startswith(base))
            return base if k == 0 else "%s_%d" % (base, k + 1)
          return None
        sched.name_for_thread = name_for_thread
        self.af = ma.ActiveFabric()
        self.first = self.singles()
        self.fix_names()
        self.queues, self.qname = [], {}
        import itertools as _it
        fe = getattr(ma, "FabricEvent", None)
        old_count = getattr(fe, "count", None)
        if scen.get("count_start") and isinstance(old_count, type(_it.count())):
          fe.count = _it.count(scen["count_start"])
        else:
          old_count = None

        class BadQueue:            # "queue" of a faulty client: no append()
          def __eq__(self, other):
            return other is self
          __hash__ = object.__hash__
        self.badq, self.poisoned = BadQueue(), set()
        self.qname[id(self.badq)] = "qbad"
        sched.tolerate = lambda name, ex: name.startswith("fab_") and isinstance(ex, AttributeError) and "append" in str(ex)
        for i in range(scen["nq"]):
          q = shims.SDeque(maxlen=50)
          q.vname = "q%d" % i
          if not scen["equal_queues"]:
            shims._D.append(q, "mark%d" % i)       # distinct contents -> distinct under ==
          self.queues.append(q)
          self.qname[id(q)] = "q%d" % i
        me = self

        def observe(sc):
          l = sc.log[sc.last_rec]
          seq, th, op, obj, args, r = l
          if obj in ("pq_fifo", "pq_lifo"):
            kind = obj[3:]
            item_ok = lambda x: isinstance(x, (list, tuple)) and len(x) >= 3
            if op in ("put", "put_nowait") and args and item_ok(args[0]):
              me.emit(["put", kind, args[0][0] if isinstance(args[0][0], int) else 0, args[0][1], args[0][2]])
            elif op in ("put", "put_nowait") and args:
              me.emit(["putother", kind, str(args[0])[:20], "", ""])       # something that is not a fabric event (judged by what follows)
            elif op in ("get", "get_nowait") and item_ok(r):
              me.emit(["get", kind, r[0] if isinstance(r[0], int) else 0, r[1], r[2], th])
          elif isinstance(obj, str) and obj.startswith("q") and op in ("append", "appendleft"):
            me.emit(["app", obj, args[0], th, op])
        sched.observers.append(observe)
        sched.spawn("main", self.driver, "main", scen["main"])
        if scen["pub2"]:
          sched.spawn("pub2", self.driver, "pub2", scen["pub2"])
        sched.policy = self.policy
        out = sched.run()
        nf, nl = self.counts()
        res = {"outcome": out, "events": self.events, "errors": sched.errors, "blocked": sched.blocked(), "steps": sched.steps,
               "drivers_done": all(vt.state == "done" for vt in sched.threads if vt.name in ("main", "pub2")),
               "final_threads": [nf, nl], "schedule": [c[0] for c in sched.choices],
               "queues": [[shims.ident(x) for x in q.raw()] for q in self.queues], "poisoned": sorted(self.poisoned)}
      finally:
        try:
          if old_count is not None:
            fe.count = old_count
        except NameError:
          pass
        left = sched.teardown()
        if left:
          res["leaked_threads"] = left
    return res


def run_one(scen, policy, max_steps=2500):
  return FabRun(scen, policy, max_steps).run()


CFG = "SPECIFICATION TSpec\nINVARIANT OneThreadPerKind\nCHECK_DEADLOCK FALSE\n"


def validate(results):
  wd = common.work_dir()
  path = os.path.join(wd, "fab_%d.ndjson" % (id(results) % 10**8))
  with open(path, "w") as f:
    for tid, r in results:
      f.write(json.dumps({"tid": tid, "ev": r["events"], "end": {"outcome": r["outcome"], "drivers_done": r["drivers_done"],
                                                                   "nf": r["final_threads"][0], "nl": r["final_threads"][1],
                                                                   "poisoned": r.get("poisoned", [])}}) + "\n")
  t = tlc.run("FabricTrace.tla", CFG, workers="auto", env={"TRACE_FILE": path}, timeout=1800)
  os.unlink(path)
  if not t.ok and t.violated != "OneThreadPerKind":
    raise common.MachineryError("TLC FabricTrace failed: %s %s" % (t.violated, t.error))
  v = {}
  for p in t.printed:
    if isinstance(p, dict) and "tid" in p:
      v[p["tid"]] = p
  for tid, _ in results:
    if tid not in v:
      v[tid] = {"tid": tid, "stuck": True}
  return v, t
