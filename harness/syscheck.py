# Whole-system executions (harness/sysdrive.py) validated against System.tla at the level of the pending-event queues
# (SystemTrace.tla): every deque operation, every dispatch, start/stop.  Used by C04 (events from timed sources and from
# the fabric), C09, C10, C12 next to their own trace specifications.
import json, os
from . import common, tlc

# failing clause -> property it speaks about (thread-dependent ones are refined in attribute())
CLAUSE_PROP = {"LostWake": "C04", "Order": "C04", "Twice": "C04", "DispatchNotPop": "C04", "Pop": "C04", "RtcOverlap": "C04",
               "TakenNotDispatched": "C04", "DispatchNotTaken": "C04", "ForeignPop": "C04", "RotateNotFull": "C04",
               "DispatchBeforeStart": "C04", "PendingEventsCleared": "C04", "PostBack": "C16", "PostFront": "C16", "Unbounded": "C16",
               "StepAfterFabricStop": "C13", "NotHaltedByFabricStop": "C13", "StepAfterStop": "C12", "DispatchAfterStop": "C12", "StopDuringStep": "C12", "NoProgress": "C05",
               "UnmodelledQueueOp": None}


def attribute(clause, verdict):
  if clause == "WrongEnd":
    th = (verdict.get("ev") or ["", "", "", "", ""])[4]
    return "C09" if str(th).startswith("fab_") else "C10" if str(th).startswith("tm") else "C04"
  return CLAUSE_PROP.get(clause, "")


def validate(results, cap, lenient_done=False):
  """results: [(tid, res)] from sysdrive.run_one (res["cfg"] attached).  Returns (verdicts, tlc result).
  lenient_done: the drivers end with a sleep beyond the time horizon (timer scenarios), so "quiescent" is their normal end."""
  path = os.path.join(common.work_dir(), "system_%d_%d.ndjson" % (os.getpid(), id(results) % 10**7))
  with open(path, "w") as f:
    for tid, r in results:
      ev = [e for e in r["ev"] if e[0] in ("qop", "disp") or (e[0] in ("call", "ret") and e[1] in ("start", "stop", "post", "tpost", "fstop", "fstart"))]
      fabric_up = not any(e[0] == "call" and e[1] == "fstop" for e in r["ev"])
      f.write(json.dumps({"tid": tid, "aos": [a["name"] for a in r["cfg"]["aos"]], "ev": ev,
                          "end": {"outcome": r["outcome"], "drivers_done": bool(r["drivers_done"] or (lenient_done and r["outcome"] == "quiescent")),
                                  "fabric_up": fabric_up, "alive": list(r.get("alive", []))}}) + "\n")
  t = tlc.run("SystemTrace.tla", "SPECIFICATION TSpec\nCONSTANT Cap = %d\nCHECK_DEADLOCK FALSE\n" % cap, workers="auto",
              env={"TRACE_FILE": path}, timeout=1800)
  os.unlink(path)
  if not t.ok:
    raise common.MachineryError("SystemTrace failed: %s %s" % (t.violated, t.error))
  v = {p["tid"]: p for p in t.printed if isinstance(p, dict) and "tid" in p}
  for tid, r in results:
    if tid not in v:
      raise common.MachineryError("system trace %d not consumed: %s" % (tid, json.dumps(r["ev"])[:1500]))
    if "UnmodelledQueueOp" in v[tid].get("bad", []):
      raise common.MachineryError("system trace %d uses a queue operation System.tla does not model: %s" % (tid, v[tid].get("ev")))
  return v, t


def file_violations(run, prop, results, verdicts, extra_props=()):
  """file the clauses that speak about `prop` (or one of extra_props); returns {other property: count}"""
  others = {}
  for tid, r in results:
    x = verdicts[tid]
    for c in x.get("bad", []):
      p = attribute(c, x)
      if c in ("Error", "Hang"):
        p = prop
      if p == prop or p in extra_props:
        run.violation("system:" + c, "system execution %d rejected at event %d: %s %s; queues=%s taken=%s" % (
          tid, x["at"], c, json.dumps(x.get("ev"))[:160], json.dumps(x.get("q"))[:200], json.dumps(x.get("taken"))),
          {"cfg": r["cfg"], "schedule": r["schedule"], "verdict": x, "events": r["ev"], "outcome": r["outcome"], "errors": r["errors"][:1]})
      else:
        others[p] = others.get(p, 0) + 1
  return others


def binding_demo(results, cap, lenient_done=False):
  """Demonstrates that SystemTrace.tla constrains the traces: an accepted execution is corrupted in three ways (a dispatch
  record dropped, an append recorded at the other end, two pops swapped) and each corrupted copy must be rejected."""
  import copy
  base = None
  for tid, r in results:
    ev = r["ev"]
    if sum(1 for e in ev if e[0] == "disp") >= 2 and sum(1 for e in ev if e[0] == "qop" and e[2] == "popleft") >= 2 and r["outcome"] == "quiescent" \
       and any(e[0] == "disp" and any(f[0] == "qop" and f[2] == "popleft" and f[1] == e[1] for f in ev[k + 1:]) for k, e in enumerate(ev)):
      base = (tid, r)
      break
  if base is None:
    return None
  tid, r = base
  variants = []
  ev = r["ev"]
  # drop a dispatch record that is followed by another pop of the same object: the pop then finds the previous event still undispatched
  i = next((k for k, e in enumerate(ev) if e[0] == "disp" and any(f[0] == "qop" and f[2] == "popleft" and f[1] == e[1] for f in ev[k + 1:])), None)
  if i is None:
    return None
  variants.append(("dispatch record dropped", ev[:i] + ev[i + 1:]))
  j = next(k for k, e in enumerate(ev) if e[0] == "qop" and e[2] in ("append", "appendleft") and len(e[5]) >= 2)if any(e[0] == "qop" and e[2] in ("append", "appendleft") and len(e[5]) >= 2 for e in ev) else None
  if j is not None:
    e2 = copy.deepcopy(ev[j]); e2[2] = "appendleft" if e2[2] == "append" else "append"
    variants.append(("append recorded at the other end", ev[:j] + [e2] + ev[j + 1:]))
  pops = [k for k, e in enumerate(ev) if e[0] == "qop" and e[2] == "popleft"]
  a, b = pops[0], pops[1]
  if ev[a][3] != ev[b][3]:
    ev3 = copy.deepcopy(ev); ev3[a][3], ev3[b][3] = ev3[b][3], ev3[a][3]
    variants.append(("two pops swapped", ev3))
  fake = []
  for k, (what, evx) in enumerate(variants):
    rr = dict(r); rr["ev"] = evx
    fake.append((10**6 + k, rr))
  v, _ = validate([(tid, r)] + fake, cap, lenient_done)
  out = {"base_accepted": "bad" not in v[tid]}
  for k, (what, _) in enumerate(variants):
    out[what] = v[10**6 + k].get("bad", [])
  if not out["base_accepted"] or any(not out[w] for w, _ in variants):
    raise common.MachineryError("SystemTrace binding demonstration failed: %s" % json.dumps(out))
  return out
