# C15 at instance level: defer / recall / post / step on a real HsmWithQueues with a small pool of Event OBJECTS that are
# handed in again and again (DeferInstTrace.tla).  Kept apart from chartgen: there every event is an object of its own.
import random


def run_one(rng, nops, script=None):
  import miros.hsm as mh
  from miros.event import Event, signals, return_status
  pool = [Event(signal="A"), Event(signal="B"), Event(signal="A")]     # two distinct instances of one signal: identity, not equality

  def idx(e):
    for i, p in enumerate(pool):
      if p is e:
        return i + 1
    return 99

  seen = []

  def only(chart, e):
    if e.signal in (signals.ENTRY_SIGNAL, signals.INIT_SIGNAL, signals.EXIT_SIGNAL):
      return return_status.HANDLED
    if e.signal_name in ("A", "B"):
      seen.append(idx(e))
      return return_status.HANDLED
    chart.temp.fun = chart.top
    return return_status.SUPER

  chart = mh.HsmWithQueues()
  chart.start_at(only)
  ops = []
  for n in range(len(script) if script is not None else nops):
    if script is not None:
      k, i = script[n][0], script[n][1] or 1
    else:
      k = rng.choices(["defer", "post", "recall", "step"], [35, 15, 30, 20])[0]
      i = rng.randint(1, len(pool))
    rec = [k, i if k in ("defer", "post") else 0, 0, [], [], "ok"]
    del seen[:]
    try:
      if k == "defer":
        chart.defer(pool[i - 1])
      elif k == "post":
        chart.post_fifo(pool[i - 1])
      elif k == "recall":
        r = chart.recall()
        rec[2] = 0 if r is None else idx(r)
      else:
        chart.next_rtc()
        rec[2] = seen[0] if len(seen) == 1 else (0 if not seen else 98)
    except Exception as ex:  # noqa
      rec[5] = "raised:" + type(ex).__name__
    rec[3] = [idx(e) for e in chart.defer_queue]
    rec[4] = [idx(e) for e in chart.queue]
    ops.append(rec)
    if rec[5] != "ok":
      break
  return ops


def work(args):
  seed, lo, hi = args
  out = []
  for tid in range(lo, hi):
    rng = random.Random((seed << 20) ^ tid * 104729)
    out.append({"tid": tid, "ops": run_one(rng, rng.randint(4, 14))})
  return out


def judge(ops):
  """the clauses of DeferInstTrace.tla, for --replay (the verdict of a check run is always TLC's)"""
  dq, q, bad = [], [], []
  for n, (k, i, ret, dq2, q2, st) in enumerate(ops):
    want = None
    if k == "defer":
      dq = dq + [i]
    elif k == "post":
      q = q + [i]
    elif k == "recall":
      want = dq[0] if dq else 0
      if dq:
        q, dq = q + [dq[0]], dq[1:]
    elif k == "step":
      want = q[0] if q else 0
      q = q[1:]
    b = ([] if st == "ok" else ["Raised"]) + ([] if dq2 == dq else ["Deferred"]) + ([] if q2 == q else ["Pending"])
    if want is not None and ret != want:
      b.append("RecallRet" if k == "recall" else "Dispatched")
    if b:
      return ["%s@op%d" % (x, n + 1) for x in b]
  return bad
