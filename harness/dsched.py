# Harness B: deterministic scheduler.  Every miros thread is a real OS thread that runs only
# while it holds the baton; it hands the baton back at every operation on a shared primitive
# (see shims.py).  A schedule is the sequence of thread names chosen; time is virtual.
import threading, random, itertools, traceback

CUR = None          # the scheduler the shims talk to (None: shims behave like the real thing, no blocking allowed)


class SchedExit(BaseException):
  """raised inside parked threads when a run is torn down"""


class VThread:
  def __init__(self, sched, name, target, args, kwargs):
    self.sched, self.name, self.target, self.args, self.kwargs = sched, name, target, args, kwargs or {}
    self.sem = threading.Semaphore(0)
    self.state = "new"       # new -> parked <-> running -> done
    self.pending = ("begin", "", ())
    self.enabled = None
    self.wake = None
    self.deadline = None
    self.stalled = False
    self.exc = None
    self.real = None
    self.steps = 0

  def is_enabled(self):
    if self.wake is not None and self.sched.now < self.wake:
      return False
    return True if self.enabled is None else bool(self.enabled())

  def _main(self):
    s = self.sched
    self.sem.acquire()
    try:
      if s.killing:
        return
      self.state = "running"
      if getattr(s, "trace_funcs", None):
        import sys as _sys
        _sys.settrace(s.make_tracer())      # line-level pre-emption inside the named functions
      self.target(*self.args, **self.kwargs)
    except SchedExit:
      pass
    except BaseException as ex:  # noqa
      self.exc = ex
      tol = getattr(s, "tolerate", None)
      if tol is not None and tol(self.name, ex):        # an injected fault: the thread dies, the run goes on
        s.__dict__.setdefault("tolerated", []).append((self.name, type(ex).__name__))
        return
      s.errors.append((self.name, type(ex).__name__, "".join(traceback.format_exception(type(ex), ex, ex.__traceback__))[-1500:]))
    finally:
      self.state = "done"
      s.by_ident.pop(threading.get_ident(), None)
      s.baton.release()

  def launch(self):
    self.real = threading.Thread(target=self._boot, daemon=True, name="v:" + self.name)
    self.state = "parked"
    self.real.start()

  def _boot(self):
    self.sched.by_ident[threading.get_ident()] = self
    self._main()


class Sched:
  def __init__(self, policy, max_steps=3000):
    self.policy = policy
    self.max_steps = max_steps
    self.threads = []
    self.by_ident = {}
    self.baton = threading.Semaphore(0)
    self.now = 0.0
    self.log = []            # [seq, thread, op, obj, args, result]
    self.errors = []
    self.killing = False
    self.outcome = None
    self.steps = 0
    self.names = itertools.count(1)
    self.choices = []        # per step: (chosen name, sorted runnable names)
    self.last = None
    self.observers = []      # callables invoked (in the scheduler thread) after every step
    self.sync_observers = [] # callables invoked right after an operation took effect (in the thread that performed it)
    self.last_rec = None
    self.stalls = []         # (thread, now, duration): injected delays ("this thread was slow here")
    self.on_stall = None

  # ---- called from managed threads -----------------------------------------
  def me(self):
    return self.by_ident.get(threading.get_ident())

  def point(self, op, obj="", args=(), enabled=None, wake=None, deadline=None):
    """announce the next shared-memory operation and wait to be scheduled; returns the VThread or None"""
    vt = self.me()
    if vt is None:
      return None
    if self.killing:
      raise SchedExit()
    vt.pending, vt.enabled, vt.wake = (op, obj, args), enabled, wake
    vt.deadline = deadline       # a blocked operation with a timeout becomes enabled at this (virtual) time
    vt.state = "parked"
    self.baton.release()
    vt.sem.acquire()
    if self.killing:
      raise SchedExit()
    vt.state = "running"
    vt.enabled, vt.wake, vt.deadline = None, None, None
    vt.stalled = False
    return vt

  def result(self, res):
    if self.me() is not None and self.log:
      self.log[self.last_rec if self.last_rec is not None else -1][5] = res
      # observers that must see the operation at the moment it took effect (in the thread that performed it, before
      # that thread runs any further code): the order of their records is the true order of events
      for ob in self.sync_observers:
        ob(self)

  def note(self, _kind, **kw):
    """API-level marker in the trace (no scheduling point)"""
    vt = self.me()
    self.log.append([len(self.log), vt.name if vt else "driver", "note:" + _kind, "", kw, None])

  # ---- optional line-level pre-emption (for shared state that is plain Python data) ----
  def make_tracer(self):
    """trace_funcs: set of (file basename, function name).  Inside those functions every source line is a
    scheduling point: the interpreter may switch threads between any two bytecodes, so races on plain
    dicts/lists (no shim) are only reachable this way."""
    import os
    want = self.trace_funcs
    me = self

    def local(frame, event, arg):
      if event == "line":
        me.point("line", "%s:%d" % (frame.f_code.co_name, frame.f_lineno))
      return local

    def tracer(frame, event, arg):
      if event == "call":
        co = frame.f_code
        base = os.path.basename(co.co_filename)
        if (base, co.co_name) in want or (base, "*") in want:
          return local
      return None
    return tracer

  # ---- thread creation ------------------------------------------------------
  def spawn(self, name, target, *args, **kwargs):
    vt = VThread(self, name, target, args, kwargs)
    self.threads.append(vt)
    vt.launch()
    return vt

  # ---- main loop (runs in the unmanaged driver thread) ----------------------
  def run(self):
    global CUR
    while True:
      if self.errors:
        self.outcome = "error"
        break
      runnable = [vt for vt in self.threads if vt.state == "parked" and vt.is_enabled()]
      if not runnable:
        sleepers = [vt.wake for vt in self.threads if vt.state == "parked" and vt.wake is not None and vt.wake > self.now]
        sleepers += [vt.deadline for vt in self.threads if vt.state == "parked" and getattr(vt, "deadline", None) is not None and vt.deadline > self.now]
        if sleepers and (self.policy.time_limit is None or min(sleepers) <= self.policy.time_limit):
          self.now = min(sleepers)
          continue
        self.outcome = "quiescent"
        break
      if self.steps >= self.max_steps:
        self.outcome = "bound"
        break
      stall = getattr(self.policy, "stall", None)
      if stall is not None:
        # a slow thread: it is ready to run but does not get the processor for `d` units of (virtual) time,
        # while the clock and the other threads go on
        r = stall(runnable, self)
        if r is not None:
          svt, d = r
          svt.wake = self.now + d
          svt.stalled = True           # held back, not waiting for anything: it still has work to do ("settle" must not count it as idle)
          self.stalls.append((svt.name, self.now, d))
          self.choices.append(("~stall:%s:%s" % (svt.name, d), sorted(x.name for x in runnable)))
          if self.on_stall is not None:
            self.on_stall(svt.name, d)
          continue
      vt = self.policy.choose(runnable, self)
      self.choices.append((vt.name, sorted(x.name for x in runnable)))
      self.steps += 1
      vt.steps += 1
      op, obj, args = vt.pending
      self.log.append([len(self.log), vt.name, op, obj if isinstance(obj, str) else getattr(obj, "vname", type(obj).__name__),
                       list(args), None])
      self.last = vt
      self.last_rec = len(self.log) - 1
      vt.sem.release()
      self._await_baton(vt)
      for ob in self.observers:
        ob(self)
    return self.outcome

  STUCK_AFTER = 120.0     # seconds of wall-clock time without the running thread reaching its next operation

  def _await_baton(self, vt):
    """wait until the thread that was given the processor reaches its next operation (or ends).  A thread that blocks for real -
    on a primitive the harness does not virtualise - would leave the check hanging: that is a failure of the machinery, reported as such."""
    if not self.baton.acquire(timeout=self.STUCK_AFTER):
      from . import common
      raise common.MachineryError("thread %s did not come back to the scheduler within %.0f s after %s on %s: it is blocked on a primitive that "
                                  "is not virtualised (or loops without touching one)" % (vt.name, self.STUCK_AFTER, vt.pending[0], vt.pending[1]))

  def step_thread(self, name):
    """driver-controlled single step of one thread (spec -> code replays); returns the log record or None"""
    for vt in self.threads:
      if vt.name == name:
        break
    else:
      return None
    if vt.state != "parked" or not vt.is_enabled():
      return None
    self.steps += 1
    op, obj, args = vt.pending
    rec = [len(self.log), vt.name, op, obj if isinstance(obj, str) else getattr(obj, "vname", type(obj).__name__), list(args), None]
    self.log.append(rec)
    self.choices.append((vt.name, sorted(x.name for x in self.threads if x.state == "parked" and x.is_enabled())))
    self.last = vt
    self.last_rec = len(self.log) - 1
    vt.sem.release()
    self._await_baton(vt)
    for ob in self.observers:
      ob(self)
    return rec

  def pending_of(self, name):
    for vt in self.threads:
      if vt.name == name:
        if vt.state == "done":
          return ("done", "", ())
        op, obj, args = vt.pending
        return (op, obj if isinstance(obj, str) else getattr(obj, "vname", "?"), args)
    return None

  def teardown(self):
    """resume every parked thread with SchedExit (re-raised at each later point: miros has bare excepts)"""
    self.killing = True
    for _ in range(50):
      alive = [vt for vt in self.threads if vt.state != "done"]
      if not alive:
        break
      for vt in alive:
        vt.sem.release()
      for vt in alive:
        vt.real.join(0.2)
    return [vt.name for vt in self.threads if vt.state != "done"]

  def blocked(self):
    return [(vt.name, vt.pending[0], vt.pending[1] if isinstance(vt.pending[1], str) else getattr(vt.pending[1], "vname", "?"))
            for vt in self.threads if vt.state == "parked"]


# ---- policies ---------------------------------------------------------------
class Policy:
  time_limit = None

  def choose(self, runnable, sched):
    raise NotImplementedError


class RandomPolicy(Policy):
  """uniform choice; with probability `stick` keep running the previous thread"""

  def __init__(self, rng, stick=0.0, time_limit=None):
    self.rng, self.stick, self.time_limit = rng, stick, time_limit

  def choose(self, runnable, sched):
    if sched.last in runnable and self.rng.random() < self.stick:
      return sched.last
    return self.rng.choice(runnable)


class PCTPolicy(Policy):
  """PCT (Burckhardt et al.): random priorities, d-1 priority change points among k steps"""

  def __init__(self, rng, depth=3, k=200, time_limit=None):
    self.rng, self.depth, self.k, self.time_limit = rng, depth, k, time_limit
    self.prio = {}
    self.change = sorted(rng.randrange(1, k) for _ in range(max(0, depth - 1)))
    self.low = 0

  def choose(self, runnable, sched):
    for vt in runnable:
      if vt.name not in self.prio:
        self.prio[vt.name] = self.rng.random() + 1.0
    best = max(runnable, key=lambda v: self.prio[v.name])
    if self.change and sched.steps >= self.change[0]:
      self.change.pop(0)
      self.low -= 1
      self.prio[best.name] = self.low
      best = max(runnable, key=lambda v: self.prio[v.name])
    return best


class ReplayPolicy(Policy):
  """follow a list of thread names; afterwards (or when the named thread cannot run) use `fallback`"""

  def __init__(self, names, fallback=None, strict=False, time_limit=None):
    self.names, self.i, self.fallback, self.strict, self.time_limit = list(names), 0, fallback, strict, time_limit
    self.diverged = None

  def stall(self, runnable, sched):
    if self.i < len(self.names) and self.names[self.i].startswith("~stall:"):
      _, name, d = self.names[self.i].split(":")
      self.i += 1
      for vt in runnable:
        if vt.name == name:
          return vt, float(d) if "." in d else int(d)
      if self.diverged is None:
        self.diverged = (self.i - 1, "stall " + name, sorted(v.name for v in runnable))
    return None

  def choose(self, runnable, sched):
    while self.i < len(self.names) and self.names[self.i].startswith("~stall:"):
      self.i += 1
    if self.i < len(self.names):
      want = self.names[self.i]
      self.i += 1
      for vt in runnable:
        if vt.name == want:
          return vt
      if self.diverged is None:
        self.diverged = (self.i - 1, want, sorted(v.name for v in runnable))
      if self.strict:
        raise ReplayDiverged(self.diverged)
    if self.fallback is not None:
      return self.fallback.choose(runnable, sched)
    return sorted(runnable, key=lambda v: v.name)[0]


class ReplayDiverged(Exception):
  pass


class NoPreemptPolicy(Policy):
  """keep running the same thread while it can run; otherwise the first runnable by name"""

  def choose(self, runnable, sched):
    if sched.last in runnable:
      return sched.last
    return sorted(runnable, key=lambda v: v.name)[0]


class RoundRobinPolicy(Policy):
  """fair: cycles through the threads"""

  def __init__(self, time_limit=None):
    self.k, self.time_limit = 0, time_limit

  def choose(self, runnable, sched):
    runnable = sorted(runnable, key=lambda v: v.name)
    self.k += 1
    return runnable[self.k % len(runnable)]


class WeightedRR(Policy):
  """fair, but not evenly: cycles through the threads giving thread t w[t] consecutive steps (w[t] drawn once per thread from 1..maxw).
  Every thread that can run keeps getting the processor (weak fairness), yet one thread may complete a whole cycle of its loop between
  two steps of another - the schedules under which "check, then act on a count another thread can step over" loops never exit."""

  def __init__(self, rng, maxw=7, time_limit=None):
    self.rng, self.maxw, self.time_limit = rng, maxw, time_limit
    self.w, self.cur, self.left = {}, None, 0

  def choose(self, runnable, sched):
    runnable = sorted(runnable, key=lambda v: v.name)
    names = [v.name for v in runnable]
    if self.cur in names and self.left > 0:
      self.left -= 1
      return runnable[names.index(self.cur)]
    # next thread after the current one in name order
    later = [v for v in runnable if self.cur is None or v.name > self.cur]
    vt = later[0] if later else runnable[0]
    if vt.name not in self.w:
      self.w[vt.name] = self.rng.randint(1, self.maxw)
    self.cur, self.left = vt.name, self.w[vt.name] - 1
    return vt


class FairSuffix(Policy):
  """`first` for n steps, then a fair suffix: round robin, or (rr given) another fair policy such as WeightedRR"""

  def __init__(self, first, n, time_limit=None, rr=None):
    self.first, self.n, self.rr, self.time_limit = first, n, rr or RoundRobinPolicy(), time_limit

  def choose(self, runnable, sched):
    return self.first.choose(runnable, sched) if sched.steps < self.n else self.rr.choose(runnable, sched)

  def stall(self, runnable, sched):
    f = getattr(self.first, "stall", None)
    return f(runnable, sched) if f is not None and sched.steps < self.n else None


class StallPolicy(Policy):
  """`inner`, plus at most `max_stalls` injected delays: with probability p per step a runnable thread (whose name
  starts with one of `only`, if given) is held back for a duration from `durations`.  Models a thread that is slow
  (pre-empted by the OS, starved of the GIL, a slow handler) while wall-clock time passes.  A stall never reaches the
  time limit of the run, so every stalled thread gets to run again."""

  def __init__(self, inner, rng, p=0.03, durations=(1, 2, 3), max_stalls=3, only=None):
    self.inner, self.rng, self.p, self.durations, self.left, self.only = inner, rng, p, durations, max_stalls, only

  @property
  def time_limit(self):
    return self.inner.time_limit

  @time_limit.setter
  def time_limit(self, v):
    self.inner.time_limit = v

  def choose(self, runnable, sched):
    return self.inner.choose(runnable, sched)

  def stall(self, runnable, sched):
    if self.left <= 0 or self.rng.random() >= self.p:
      return None
    cands = [vt for vt in runnable if self.only is None or vt.name.startswith(tuple(self.only))]
    if not cands:
      return None
    cands = sorted(cands, key=lambda v: v.name)
    # prefer a thread that is about to hand something over to a queue (in the middle of a loop over several receivers)
    mid = [v for v in cands if v.pending[0] in ("append", "appendleft", "put", "put_nowait")]
    vt = self.rng.choice(mid) if mid and self.rng.random() < 0.6 else self.rng.choice(cands)
    d = self.rng.choice(self.durations)
    if self.time_limit is not None and sched.now + d >= self.time_limit:
      return None
    self.left -= 1
    return vt, d


def explore_pb(execute, bound, max_execs):
  """Preemption-bounded systematic exploration (stateless).  execute(prefix) runs one execution following
  `prefix` (list of thread names) and then never preempting; it returns the list `choices` of (chosen, runnable)."""
  done, stack, seen = 0, [[]], set()
  while stack and done < max_execs:
    prefix = stack.pop()
    key = tuple(prefix)
    if key in seen:
      continue
    seen.add(key)
    choices = execute(prefix)
    done += 1
    # count preemptions in the prefix part
    pre = 0
    for i in range(1, min(len(prefix), len(choices))):
      if choices[i][0] != choices[i - 1][0] and choices[i - 1][0] in choices[i][1]:
        pre += 1
    for i in range(len(prefix), len(choices)):
      chosen, runnable = choices[i]
      prev = choices[i - 1][0] if i else None
      for alt in runnable:
        if alt == chosen:
          continue
        cost = 1 if (prev is not None and prev in runnable and alt != prev) else 0
        # preemptions already spent between prefix end and i by the default continuation are zero by construction
        if pre + cost <= bound:
          stack.append([c[0] for c in choices[:i]] + [alt])
  return done
