# Harness A: scripted charts.  Real miros event processors run state functions that are
# generated from a chart description (a table) and that keep an independent call log.
# Nothing here consults miros' own spy/trace when building the independent log.
import re, sys, datetime as _dt
from . import common  # noqa: F401  (puts /repo on sys.path)

INNER3 = ("ENTRY_SIGNAL", "EXIT_SIGNAL", "INIT_SIGNAL")


class Hang(Exception):
  pass


class ChartFault(Exception):
  """raised by a generated handler whose table says so (fault injection: a user handler that fails)"""


class FakeClock:
  """Replacement for miros.hsm.stdlib_datetime: now() follows a scripted behaviour."""

  def __init__(self, mode):
    self.mode, self.calls = mode, 0
    self.base = _dt.datetime(2020, 1, 2, 3, 4, 5, 0)

  def now(self):
    self.calls += 1
    if self.mode == "const":
      k = 0
    elif self.mode == "coarse":
      k = self.calls // 97          # changes rarely
    elif self.mode == "whole":
      return self.base + _dt.timedelta(seconds=self.calls)    # whole seconds: microsecond == 0
    elif self.mode == "back":
      k = -self.calls               # a clock stepping backwards
    else:
      k = self.calls
    return self.base + _dt.timedelta(microseconds=k)

  @staticmethod
  def strftime(d, fmt):
    return _dt.datetime.strftime(d, fmt)


class Script:
  """Holds the chart table, answers handler calls, keeps the independent log."""

  def __init__(self, chart, limit=4000):
    self.c = chart
    self.n = chart["n"]
    self.limit = limit
    self.calls = 0
    self.log = []        # call records of the current op
    self.stack = []
    self.opmarks = []    # effects executed outside any handler during the current op
    self.eid = 0
    self.fn = {}         # index -> state function (possibly spied)
    self.raw = {}        # index -> undecorated function
    self.eff = {}
    for st, sg, lst in chart.get("eff", []):
      self.eff[(st, sg)] = lst
    self.hsm = None
    self.init_enabled = True

  # -- bookkeeping -----------------------------------------------------------
  def tick(self):
    self.calls += 1
    if self.calls > self.limit:
      raise Hang()

  def begin_op(self):
    self.log, self.opmarks, self.calls = [], [], 0

  def new_event(self, sig):
    from miros.event import Event
    self.eid += 1
    return Event(signal=sig, payload=self.eid)

  def mark(self, m):
    (self.stack[-1][3] if self.stack else self.opmarks).append(m)

  def do_effect(self, hsm, ef):
    op = ef[0]
    if op == "post_fifo":
      e = self.new_event(ef[1]); self.mark(["post_fifo", ef[1], e.payload]); hsm.post_fifo(e)
    elif op == "post_lifo":
      e = self.new_event(ef[1]); self.mark(["post_lifo", ef[1], e.payload]); hsm.post_lifo(e)
    elif op == "defer":
      e = self.new_event(ef[1]); self.mark(["defer", ef[1], e.payload]); hsm.defer(e)
    elif op == "recall":
      m = ["recall", "", 0]; self.mark(m)
      r = hsm.recall()
      if r is not None:
        m[1], m[2] = r.signal_name, (r.payload if isinstance(r.payload, int) else 0)
    elif op == "scribble":
      self.mark(["scribble", ef[1], 0]); hsm.scribble(ef[1])
    elif op == "other":
      # the handler dispatches an event into ANOTHER chart object (an orthogonal component): charts must not share any state
      self.mark(["other", ef[1], 0])
      comp = getattr(self, "companion", None)
      if comp is not None:
        h2, s2 = comp
        h2.dispatch(s2.new_event(ef[1]))
    elif op == "cs":
      self.mark(["cs", "", 0])
      hsm.current_state()          # a handler that asks the chart where it is (reflection) while the step is under way
    elif op == "raise":
      self.mark(["raise", "", 0])
      raise ChartFault("handler failed on purpose")
    else:
      raise ValueError(ef)

  # -- the handler body ------------------------------------------------------
  def answer(self, hsm, i, e):
    from miros.event import return_status as rs
    self.tick()
    name = e.signal_name
    eid = e.payload if isinstance(e.payload, int) and not isinstance(e.payload, bool) else 0
    rec = [name, i, "?", [], eid]
    self.log.append(rec)
    self.stack.append(rec)
    try:
      st = self._answer(hsm, i, name, rs)
      rec[2] = {None: "NONE", rs.SUPER: "SUPER", rs.HANDLED: "HANDLED", rs.UNHANDLED: "UNHANDLED",
                rs.TRAN: "TRAN", rs.NULL: "NULL"}.get(st, str(st))
      return st
    finally:
      self.stack.pop()

  def _fall(self, hsm, i, rs):
    p = self.c["par"][i - 1]
    hsm.temp.fun = self.fn[p] if p else hsm.top
    return rs.SUPER

  def _answer(self, hsm, i, name, rs):
    c = self.c
    bad = c.get("bad")
    if name in INNER3:
      for ef in self.eff.get((i, name), []):
        self.do_effect(hsm, ef)
      if name == "INIT_SIGNAL":
        tgt = c["init"][i - 1] if self.init_enabled else 0
        if bad and bad[0] == "init" and bad[1] == i and self.init_enabled:
          tgt = bad[2]
        if tgt:
          return hsm.trans(self.fn[tgt])
        style = c["istyle"][i - 1]
      elif name == "ENTRY_SIGNAL":
        style = c["estyle"][i - 1]
      else:
        style = c["xstyle"][i - 1]
      return rs.HANDLED if style == "h" else self._fall(hsm, i, rs)
    if bad and bad[0] == "nosuper" and bad[1] == i and name == "SEARCH_FOR_SUPER_SIGNAL":
      return None      # a handler without a final else clause: asked for its super state it returns no status and names no parent
    if name in c["sigs"]:
      if bad and bad[0] == "none" and bad[1] == i and bad[2] == name:
        return None
      kind, tgt = c["react"][i - 1][c["sigs"].index(name)]
      if kind == "none":
        return self._fall(hsm, i, rs)
      if kind == "unh":
        return rs.UNHANDLED
      for ef in self.eff.get((i, name), []):
        self.do_effect(hsm, ef)
      if kind == "hook":
        return rs.HANDLED
      if kind == "null":
        return rs.NULL
      return hsm.trans(self.fn[tgt])
    return self._fall(hsm, i, rs)

  # -- build the state functions (dynamic build) -----------------------------
  def name_of(self, i):
    names = self.c.get("names")
    return names[i - 1] if names else "s%d" % i

  def build_dyn(self, spied):
    from miros.hsm import spy_on
    me = self
    if self.c.get("hstyle", "fn") == "bound":
      return self.build_bound(spied)

    def make(i):
      def handler(chart, e):
        return me.answer(chart, i, e)
      handler.__name__ = me.name_of(i)
      handler.__qualname__ = me.name_of(i)
      return handler
    def counted(f):
      # a user's own decorator on an un-instrumented state function (written with functools.wraps, as decorators are)
      import functools

      @functools.wraps(f)
      def wrapper(chart, e):
        wrapper.calls += 1
        return f(chart, e)
      wrapper.calls = 0
      return wrapper
    wrapped = self.c.get("hstyle", "fn") == "wrapped"
    for i in range(1, self.n + 1):
      self.raw[i] = make(i)
      # (chart['spied_states']: a partially decorated chart - only the listed states carry the spy decorator)
      part = self.c.get("spied_states")
      dec = spied and (not part or part[i - 1])
      self.fn[i] = spy_on(self.raw[i]) if dec else (counted(self.raw[i]) if wrapped else self.raw[i])

  def build_bound(self, spied):
    """state handlers that are methods of a helper object (signature (self, chart, e)): every mention of a state
    (`obj.s3`) is a NEW bound-method object, equal to but not identical with the one the processor holds"""
    from miros.hsm import spy_on
    me = self

    class Holder:
      pass

    def make(i):
      def handler(self_, chart, e):
        return me.answer(chart, i, e)
      handler.__name__ = me.name_of(i)
      handler.__qualname__ = "Holder." + me.name_of(i)
      return handler
    for i in range(1, self.n + 1):
      setattr(Holder, "h%d" % i, make(i))
    holder = Holder()

    class Fresh(dict):
      def __getitem__(self, i):
        return getattr(holder, "h%d" % i)

      def get(self, i, default=None):
        return getattr(holder, "h%d" % i, default)
    if spied:
      for i in range(1, self.n + 1):
        self.raw[i] = getattr(holder, "h%d" % i)
        self.fn[i] = spy_on(self.raw[i])
    else:
      self.fn = Fresh()
      self.raw = Fresh()

  # -- static builds (C17): hand-written text, template+registry, Factory, exec'd to_code text ------
  def registered(self, i, sg):
    c = self.c
    if sg in INNER3:
      if (i, sg) in self.eff:
        return True
      if sg == "INIT_SIGNAL":
        return bool(c["init"][i - 1]) or c["istyle"][i - 1] == "h"
      return (c["estyle"] if sg == "ENTRY_SIGNAL" else c["xstyle"])[i - 1] == "h"
    return c["react"][i - 1][c["sigs"].index(sg)][0] != "none"

  def answer_cb(self, hsm, i, e, sg):
    """body of a registered callback: always answers (never falls through)"""
    from miros.event import return_status as rs
    self.tick()
    eid = e.payload if isinstance(e.payload, int) and not isinstance(e.payload, bool) else 0
    rec = [sg, i, "?", [], eid]
    self.log.append(rec)
    self.stack.append(rec)
    try:
      c = self.c
      st = rs.HANDLED
      if sg in INNER3:
        for ef in self.eff.get((i, sg), []):
          self.do_effect(hsm, ef)
        if sg == "INIT_SIGNAL" and c["init"][i - 1] and self.init_enabled:
          st = hsm.trans(self.fn[c["init"][i - 1]])
      else:
        kind, tgt = c["react"][i - 1][c["sigs"].index(sg)]
        if kind == "unh":
          st = rs.UNHANDLED
        else:
          for ef in self.eff.get((i, sg), []):
            self.do_effect(hsm, ef)
          if kind == "tran":
            st = hsm.trans(self.fn[tgt])
      rec[2] = {rs.HANDLED: "HANDLED", rs.UNHANDLED: "UNHANDLED", rs.TRAN: "TRAN"}.get(st, str(st))
      return st
    finally:
      self.stack.pop()

  def callbacks(self, host=None):
    """the registered callbacks, in the style chart['cbstyle']: plain functions, functools.partial objects, objects with
    __call__, or (template / Factory builds only) bound methods of the chart, which the template calls as fn(e)"""
    import functools, types
    me = self
    cbs = {}
    style = self.c.get("cbstyle", "def")

    def generic(i, sg, chart, e):
      return me.answer_cb(chart, i, e, sg)

    class CallableCb:
      def __init__(self, i, sg):
        self.i, self.sg = i, sg

      def __call__(self, chart, e):
        return me.answer_cb(chart, self.i, e, self.sg)

    def make(i, sg):
      name = "cb_s%d_%s" % (i, sg)
      if style == "partial":
        cb = functools.partial(generic, i, sg)
      elif style == "object":
        cb = CallableCb(i, sg)
      elif style == "method" and host is not None and i not in self.c.get("hand_states", []):
        def meth(chart, e):
          return me.answer_cb(chart, i, e, sg)
        meth.__name__ = name
        return types.MethodType(meth, host)
      else:
        def cb(chart, e):
          return me.answer_cb(chart, i, e, sg)
      cb.__name__ = name
      return cb
    for i in range(1, self.n + 1):
      for sg in list(INNER3) + list(self.c["sigs"]):
        if self.registered(i, sg):
          cbs[(i, sg)] = make(i, sg)
    return cbs

  def build_template(self, hsm, use_factory=False):
    """state_method_template + register_signal_callback + register_parent (or Factory.create/catch/nest)"""
    from miros.hsm import state_method_template
    from miros.event import signals
    cbs = self.callbacks(hsm)
    # a mixed chart: the states listed in chart['hand_states'] are written by hand (they name their own super state and are never
    # registered), the others are assembled from the template and nested under them / around them
    hand = set(self.c.get("hand_states", []))
    gen_states = [i for i in range(1, self.n + 1) if i not in hand]
    if hand:
      self.build_from_text([t for i, t in enumerate(self.hand_text(), 1) if i in hand], cbs, only=hand, late=lambda: self.fn)
    if use_factory:
      bps = {i: hsm.create(state="s%d" % i) for i in gen_states}
      for i in gen_states:
        self.fn[i] = self.raw[i] = bps[i].to_method()
      for (i, sg), cb in sorted(cbs.items()):
        if i not in hand:
          bps[i].catch(signal=getattr(signals, sg), handler=cb)
      for i in gen_states:
        p = self.c["par"][i - 1]
        hsm.nest(self.fn[i], parent=self.fn[p] if p else None)
    else:
      for i in gen_states:
        self.fn[i] = self.raw[i] = state_method_template("s%d" % i)
      items = [((i, sg), cb) for (i, sg), cb in sorted(cbs.items()) if i not in hand]
      half = len(items) // 2 if self.c.get("early_code") else len(items)
      for (i, sg), cb in items[:half]:
        hsm.register_signal_callback(self.fn[i], getattr(signals, sg), cb)
      for i in gen_states:
        p = self.c["par"][i - 1]
        hsm.register_parent(self.fn[i], self.fn[p] if p else hsm.top)
      if self.c.get("early_code"):
        # the text of every state is asked for while the chart is still being assembled (a tool that shows the chart as it grows);
        # the text asked for once the chart is complete must describe the complete chart
        for i in gen_states:
          try:
            hsm.to_code(self.fn[i])
          except Exception:  # noqa  (a state without any callback yet)
            pass
        for (i, sg), cb in items[half:]:
          hsm.register_signal_callback(self.fn[i], getattr(signals, sg), cb)
    return cbs

  def hand_text(self):
    """the chart as a user would write it by hand (the idiom of the docs)"""
    out = []
    for i in range(1, self.n + 1):
      lines = ["@spy_on", "def s%d(chart, e):" % i, "  status = return_status.UNHANDLED"]
      kw = "if"
      for sg in list(INNER3) + list(self.c["sigs"]):
        if self.registered(i, sg):
          lines.append("  %s(e.signal == signals.%s):" % (kw, sg))
          lines.append("    status = cb_s%d_%s(chart, e)" % (i, sg))
          kw = "elif"
      p = self.c["par"][i - 1]
      if kw == "if":
        lines.append("  status, chart.temp.fun = return_status.SUPER, %s" % ("s%d" % p if p else "chart.top"))
      else:
        lines.append("  else:")
        lines.append("    status, chart.temp.fun = return_status.SUPER, %s" % ("s%d" % p if p else "chart.top"))
      lines.append("  return status")
      out.append("\n".join(lines) + "\n")
    return out

  def build_from_text(self, texts, cbs, only=None, late=None):
    """executes state texts; `only`: the states these texts define (the others are looked up, when a text names them, in late())"""
    from miros.hsm import spy_on
    from miros.event import signals, return_status

    class NS(dict):
      # a state text names its super state (or a sibling) as a global: states that are not defined by text resolve to the
      # functions the script holds at the time of the call
      def __missing__(self, key):
        if late is not None and key[:1] == "s" and key[1:].isdigit() and int(key[1:]) in late():
          return late()[int(key[1:])]
        raise KeyError(key)
    ns = NS({"spy_on": spy_on, "signals": signals, "return_status": return_status})
    for (i, sg), cb in cbs.items():
      ns[cb.__name__] = cb
    for t in texts:
      exec(compile(t, "<generated chart text>", "exec"), ns)
    for i in (range(1, self.n + 1) if only is None else sorted(only)):
      self.fn[i] = self.raw[i] = ns["s%d" % i]
    return ns

  def index_of(self, f, hsm):
    if f is None:
      return -1
    for i in range(1, self.n + 1):
      if f is self.fn[i] or f is self.raw[i] or f == self.fn[i]:
        return i
    if self.c.get("build", "dyn") != "dyn":
      w = getattr(f, "__wrapped__", None)
      for i in range(1, self.n + 1):
        wi = getattr(self.fn[i], "__wrapped__", None)
        if (w is not None and w is wi) or f is wi:
          return i
    try:
      if f == hsm.top or getattr(f, "__name__", "") == "top":
        return 0
    except Exception:
      pass
    return -2


def registered_list(chart):
  sc = Script(chart)
  return [[i, sg] for i in range(1, chart["n"] + 1) for sg in list(INNER3) + list(chart["sigs"]) if sc.registered(i, sg)]


def make_host(kind, script, cap):
  """Host classes with a counting top(); QUEUE_SIZE is read from the instance's class."""
  import miros.hsm as mh
  if kind == "plain":
    base = mh.HsmEventProcessor
  elif kind == "instr":
    base = mh.InstrumentedHsmEventProcessor
  elif kind == "queued":
    base = mh.HsmWithQueues
  elif kind == "factory":
    import miros.activeobject as ma
    base = ma.Factory
  else:
    raise ValueError(kind)

  class Host(base):
    QUEUE_SIZE = cap

    def top(self, *args):
      script.tick()
      return super().top(*args)
  Host.__name__ = "Host_" + kind
  return Host("c") if kind == "factory" else Host()


def build_decoy(other, script, use_factory):
  """ANOTHER chart object of the same class, alive in the same process, that uses the same state names with a different
  (flat) hierarchy and different callbacks: charts must not share their registries"""
  from miros.hsm import state_method_template
  from miros.event import signals, return_status

  def decoy_cb(chart, e):
    return return_status.HANDLED
  decoy_cb.__name__ = "decoy_cb"
  n = script.n
  if use_factory:
    bps = {i: other.create(state="s%d" % i) for i in range(1, n + 1)}
    fns = {i: bps[i].to_method() for i in range(1, n + 1)}
    for i in range(1, n + 1):
      for sg in script.c["sigs"]:
        bps[i].catch(signal=getattr(signals, sg), handler=decoy_cb)
    for i in range(1, n + 1):
      other.nest(fns[i], parent=None)
  else:
    fns = {i: state_method_template("s%d" % i) for i in range(1, n + 1)}
    for i in range(1, n + 1):
      for sg in script.c["sigs"]:
        other.register_signal_callback(fns[i], getattr(signals, sg), decoy_cb)
      other.register_parent(fns[i], other.top)
  return other


class Rings:
  """Temporarily shrink the ring-buffer sizes (class attributes read at construction)."""

  def __init__(self, spy, trc):
    self.spy, self.trc = spy, trc

  def __enter__(self):
    import miros.hsm as mh
    self.old = (mh.HsmEventProcessor.SPY_RING_BUFFER_SIZE, mh.HsmEventProcessor.TRC_RING_BUFFER_SIZE)
    mh.HsmEventProcessor.SPY_RING_BUFFER_SIZE = self.spy
    mh.HsmEventProcessor.TRC_RING_BUFFER_SIZE = self.trc

  def __exit__(self, *a):
    import miros.hsm as mh
    mh.HsmEventProcessor.SPY_RING_BUFFER_SIZE, mh.HsmEventProcessor.TRC_RING_BUFFER_SIZE = self.old


_SPY_RE = re.compile(r"^([A-Za-z_0-9]+):s(\d+)$")
_TRC_RE = re.compile(r"^\n?\[([^\]]*)\] \[([^\]]*)\] e->(.*)\(\) (.*)->(.*)\n?$", re.S)


def parse_trace_line(s):
  m = _TRC_RE.match(s.strip("\n"))
  if not m:
    return ["?", "?", s]
  return [m.group(3), m.group(4), m.group(5)]


def run_chart(chart, ops):
  """Run ops on a real miros host carrying the scripted chart; return the recorded trace."""
  import miros.hsm as mh
  host_kind = chart.get("host", "queued")
  spied = chart.get("spied", True)
  cap = chart.get("cap", 500)
  script = Script(chart)
  build = chart.get("build", "dyn")
  clock = FakeClock(chart.get("clock", "fine"))
  old_clock = mh.stdlib_datetime
  mh.stdlib_datetime = clock
  live_spy_lines, live_trc_lines = [], []
  events = []
  try:
    with Rings(chart.get("spy_ring", 500), chart.get("trc_ring", 500)):
      hsm = make_host(host_kind, script, cap)
      hsm0 = make_host(host_kind, script, cap) if build == "tocode" else None
    script.hsm = hsm
    queued = host_kind in ("queued", "factory")
    build_rec = None
    try:
      if build == "dyn":
        script.build_dyn(spied)
      elif build == "template":
        script.build_template(hsm)
        if chart.get("decoy"):
          build_decoy(make_host(host_kind, script, cap), script, False)
      elif build == "factory":
        script.build_template(hsm, use_factory=True)
        if chart.get("decoy"):
          build_decoy(make_host(host_kind, script, cap), script, True)
      elif build == "hand":
        script.build_from_text(script.hand_text(), script.callbacks())
      elif build == "tocode":
        cbs = script.build_template(hsm0, use_factory=(host_kind == "factory"))
        if chart.get("decoy"):
          build_decoy(make_host(host_kind, script, cap), script, host_kind == "factory")
        hand = set(chart.get("hand_states", []))
        texts = [hsm0.to_code(script.fn[i]) for i in range(1, script.n + 1) if i not in hand]
        # (in a mixed chart the hand-written states are executed again with the text of the generated ones: one consistent set)
        texts += [t for i, t in enumerate(script.hand_text(), 1) if i in hand]
        script.build_from_text(texts, cbs)
        chart["_texts"] = texts
      else:
        raise ValueError(build)
    except Exception as ex:  # noqa
      build_rec = {"k": "build", "arg": build, "ret": "", "outcome": "raised:" + type(ex).__name__, "exc": repr(ex)[:200]}
    if build != "dyn":
      events.append(build_rec or {"k": "build", "arg": build, "ret": "", "outcome": "ok"})
      for r0 in events:
        r0.update({"log": [], "marks": [], "cur": -1, "temp": -1, "name": "", "fn": -1, "instr": True, "rtc": [], "full": [],
                   "trc": [], "q": [], "dq": [], "cs": "", "live_spy": [], "live_trc": [], "live_trc_raw": [], "spycalls": []})
      if build_rec:
        return events
    if chart.get("companion") and build == "dyn":
      # a second, independent chart object of the same class built from the same table (without side effects), started, and - if it
      # has a queue - with one event left pending in it for ever
      import copy as _copy
      c2 = _copy.deepcopy({k: v for k, v in chart.items() if not k.startswith("_")})
      c2["eff"], c2["bad"] = [], []
      script2 = Script(c2)
      with Rings(chart.get("spy_ring", 500), chart.get("trc_ring", 500)):
        hsm2 = make_host(host_kind, script2, cap)
      script2.hsm = hsm2
      script2.build_dyn(spied)
      try:
        hsm2.start_at(script2.fn[1])
        if queued:
          hsm2.post_fifo(script2.new_event(chart["sigs"][-1]))
      except Exception:  # noqa
        pass
      script.companion = (hsm2, script2)
    if queued and host_kind != "factory":
      hsm.name = chart.get("name", "c")
      if chart.get("live_spy"):
        hsm.live_spy = True
        hsm.register_live_spy_callback(lambda line: live_spy_lines.append(line))
      if chart.get("live_trace"):
        hsm.live_trace = True
        hsm.register_live_trace_callback(lambda line: live_trc_lines.append(line))
    started = False
    state = {"started": False}
    def finish_rec(rec):
      # snapshot of everything observable after an op (or after one step of complete_circuit); appends the record
      rec["log"] = [[r[0], r[1], r[2], r[3], r[4]] for r in script.log]
      if rec["outcome"] == "hang":
        rec["log"] = rec["log"][:40]       # the runaway call sequence is not needed to reject the op
      rec["marks"] = list(script.opmarks)
      if state["started"] or rec["outcome"] != "ok":
        try:
          rec["cur"] = script.index_of(getattr(hsm.state, "fun", None), hsm)
          rec["temp"] = script.index_of(getattr(hsm.temp, "fun", None), hsm)
        except Exception:
          rec["cur"], rec["temp"] = -3, -3
      else:
        rec["cur"], rec["temp"] = -1, -1
      rec["name"] = str(getattr(hsm, "state_name", ""))
      sf = getattr(hsm, "state_fn", None)
      rec["fn"] = script.index_of(sf, hsm)
      instr = bool(getattr(hsm, "instrumented", False)) and host_kind != "plain"
      rec["instr"] = instr
      if instr:
        rec["rtc"] = list(hsm.rtc.spy)
        rec["full"] = list(hsm.full.spy)
        # (whatever the chart wrote into a record goes to the trace format as text: a status number where a state name belongs is
        # judged by TLC as a wrong name, it does not break the recorder)
        rec["trc"] = [[str(t.start_state) if t.start_state is not None else "", str(t.signal) if t.signal is not None else "",
                       str(t.end_state) if t.end_state is not None else ""] for t in hsm.full.trace]
      else:
        rec["rtc"], rec["full"], rec["trc"] = [], [], []
      if queued:
        rec["q"] = [[e.signal_name, e.payload if isinstance(e.payload, int) else 0] for e in getattr(hsm.queue, "deque", hsm.queue)]
        rec["dq"] = [[e.signal_name, e.payload if isinstance(e.payload, int) else 0] for e in hsm.defer_queue]
        cs = None
        try:
          cs = hsm.current_state() if state["started"] else None
        except Exception as ex:  # noqa
          cs = "raised:" + type(ex).__name__
        rec["cs"] = cs if isinstance(cs, str) else ""
      else:
        rec["q"], rec["dq"], rec["cs"] = [], [], ""
      sc = []
      for line in rec["rtc"]:
        m = _SPY_RE.match(line)
        if m:
          sc.append([m.group(1), int(m.group(2))])
      rec["spycalls"] = sc
      rec["live_spy"] = list(live_spy_lines)
      rec["live_trc"] = [parse_trace_line(s) for s in live_trc_lines]
      rec["live_trc_raw"] = list(live_trc_lines)
      events.append(rec)

    for op in ops:
      script.begin_op()
      del live_spy_lines[:]
      del live_trc_lines[:]
      rec = {"k": op[0], "arg": op[1] if len(op) > 1 else "", "ret": "", "outcome": "ok"}
      try:
        k = op[0]
        if k == "start":
          script.init_enabled = (len(op) < 3 or op[2] != "noinit")
          if host_kind == "factory":
            mh.HsmWithQueues.start_at(hsm, script.fn[op[1]])   # the chart without the active object's thread
          else:
            hsm.start_at(script.fn[op[1]])
          script.init_enabled = True
          started = True
          state["started"] = True
        elif k == "dispatch":
          e = script.new_event(op[1]); rec["eid"] = e.payload
          hsm.dispatch(e)
        elif k in ("post_fifo", "post_lifo", "defer"):
          script.do_effect(hsm, [k, op[1]])
        elif k == "recall":
          script.do_effect(hsm, ["recall"])
        elif k == "scribble":
          script.do_effect(hsm, ["scribble", op[1]])
        elif k == "next_rtc":
          r = hsm.next_rtc(); rec["ret"] = "T" if r else "F"
        elif k == "complete_circuit":
          # one record per run-to-completion step inside the circuit (the instance's next_rtc is wrapped), then "circuit_end"
          orig_next = hsm.next_rtc
          inner_failed = []

          def inner_step():
            irec = {"k": "next_rtc", "arg": "", "ret": "", "outcome": "ok", "circuit": 1}
            try:
              r = orig_next()
              irec["ret"] = "T" if r else "F"
            except Hang:
              irec["outcome"] = "hang"; inner_failed.append(1); finish_rec(irec); raise
            except Exception as ex:  # noqa
              irec["outcome"] = "raised:" + type(ex).__name__; inner_failed.append(1); finish_rec(irec); raise
            finish_rec(irec)
            script.begin_op()
            del live_spy_lines[:]
            del live_trc_lines[:]
            return r
          hsm.next_rtc = inner_step
          try:
            hsm.complete_circuit()
          finally:
            del hsm.next_rtc
          rec["k"] = "circuit_end"
        elif k == "is_in":
          r = hsm.is_in(script.fn[op[1]] if op[1] else hsm.top); rec["ret"] = "T" if r else "F"
        elif k == "child_state":
          arg = op[1]
          if arg == -1:   # an enclosing state of the current state (or itself), picked by op[2]
            c0 = script.index_of(hsm.state.fun, hsm)
            ups = []
            while c0 > 0:
              ups.append(c0); c0 = chart["par"][c0 - 1]
            arg = ups[op[2] % len(ups)] if ups else 1
            rec["arg"] = arg
          r = hsm.child_state(script.fn[arg] if arg else hsm.top); rec["ret"] = str(script.index_of(r, hsm))
        elif k == "clear_spy":
          hsm.clear_spy()
        elif k == "clear_trace":
          hsm.clear_trace()
        else:
          raise ValueError(op)
      except Hang:
        rec["outcome"] = "hang"
      except AssertionError:
        rec["outcome"] = "raised:AssertionError"
      except Exception as ex:  # noqa
        rec["outcome"] = "raised:" + type(ex).__name__
        rec["exc"] = repr(ex)[:200]
      if not (op[0] == "complete_circuit" and rec["outcome"] != "ok" and events and events[-1].get("circuit") and events[-1]["outcome"] != "ok"):
        finish_rec(rec)
      if rec["outcome"] != "ok" and not (rec["k"] == "child_state" and rec["outcome"] == "raised:AssertionError"):
        break      # (a failed child_state query is an answer, not a crash: the caller catches it and goes on)
  finally:
    mh.stdlib_datetime = old_clock
  return events
