# Harness B drivers for the small shared-memory utilities: SingletonDecorator (C30), the signal registry (C25).
import json, random, os
from . import common, dsched, shims


# ------------------------------------------------------------------ C30
def singleton_run(klass_name, nthreads, policy, max_steps=400):
  import miros.singleton as ms
  sched = dsched.Sched(policy, max_steps)
  # the decorator's state is plain Python attributes: the interpreter may switch threads between any two lines of it
  sched.trace_funcs = {("singleton.py", "*")}
  made = []
  res = {}
  with shims.installed(sched) as ma:
    saved = {}
    for nm, shim in (("Lock", shims.SLock), ("RLock", shims.SRLock)):
      if hasattr(ms, nm):
        saved[nm] = getattr(ms, nm)
        setattr(ms, nm, shim)
    try:
      import miros.event as mev
      base = {"K": object, "SignalSource": mev.SignalSource, "ReturnStatusSource": mev.ReturnStatusSource,
              "ActiveFabricSource": ma.ActiveFabricSource, "SourceThreadEvent": ma.SourceThreadEvent,
              "InstrumenationWriterClass": ma.InstrumenationWriterClass}[klass_name]

      class K(base):
        def __init__(self, *a, **kw):
          sched.point("construct", klass_name)
          made.append(self)
          super().__init__(*a, **kw)
      dec = ms.SingletonDecorator(K)

      class Y(type(dec)):
        def _gi(self):
          sched.point("rd_instance", "slot")
          return self.__dict__.get("_inst")

        def _si(self, v):
          sched.point("wr_instance", "slot")
          self.__dict__["_inst"] = v
        instance = property(_gi, _si)
      inst0 = dec.__dict__.pop("instance", None)
      dec.__dict__["_inst"] = inst0
      dec.__class__ = Y
      got = {}

      def req(name):
        got[name] = dec()
      for i in range(nthreads):
        sched.spawn("t%d" % (i + 1), req, "t%d" % (i + 1))
      out = sched.run()
      ident = {id(o): k + 1 for k, o in enumerate(made)}
      res = {"outcome": out, "made": len(made), "got": [ident.get(id(got.get("t%d" % (i + 1))), 0) for i in range(nthreads)],
             "final": ident.get(id(dec.__dict__.get("_inst")), 0), "errors": len(sched.errors), "errs": sched.errors[:1],
             "done": all(vt.state == "done" for vt in sched.threads if vt.name.startswith("t")),
             "choices": list(sched.choices), "klass": klass_name, "ops": [[l[1], l[2]] for l in sched.log]}
    finally:
      for nm, v in saved.items():
        setattr(ms, nm, v)
      sched.teardown()
  return res


REAL_SINGLETONS = ["ActiveFabric", "FiberThreadEvent", "InstrumentionWriter", "Signal", "ReturnStatus"]


def real_singleton_run(which, nthreads, policy, max_steps=800):
  """the library's OWN singleton declarations (miros.activeobject.ActiveFabric, FiberThreadEvent, InstrumentionWriter, miros.event.Signal,
  ReturnStatus) requested for the first time by several threads at once: the instance is forgotten by the means the declaration
  offers (the decorator's instance slot, or cache_clear() of a memoiser), the threads request it under the scheduler with every
  source line of singleton.py and of the constructors as a pre-emption point, and afterwards the original instance is put back."""
  import miros.singleton as ms
  import miros.event as mev
  sched = dsched.Sched(policy, max_steps)
  sched.trace_funcs = {("singleton.py", "*"), ("activeobject.py", "__init__"), ("event.py", "__init__")}
  res = {}
  with shims.installed(sched) as ma:
    saved_locks = {}
    for nm, shim in (("Lock", shims.SLock), ("RLock", shims.SRLock)):
      if hasattr(ms, nm):
        saved_locks[nm] = getattr(ms, nm)
        setattr(ms, nm, shim)
    # (the harness re-creates the three singletons of activeobject.py for every run; the check is about the declarations the module made)
    declared = lambda w: sched.declared[w] if w in ("ActiveFabric", "FiberThreadEvent", "InstrumentionWriter") else getattr(mev, w)
    decl = declared(which)
    undo = []
    try:
      # every declaration's own lock becomes a cooperative one for the run (a real lock would block a thread that does not hold the baton)
      for d in [declared(w) for w in REAL_SINGLETONS] + [getattr(ma, w) for w in ("ActiveFabric", "FiberThreadEvent", "InstrumentionWriter")]:
        if hasattr(d, "lock") and not isinstance(d.lock, (shims.SLock, shims.SRLock)):
          undo.append((d, "lock", d.lock))
          d.lock = shims.SLock()
      if hasattr(decl, "instance") and not callable(getattr(decl, "instance")):
        undo.append((decl, "instance", decl.instance))
        decl.instance = None
      elif hasattr(decl, "cache_clear"):
        decl.cache_clear()
      else:
        return {"skipped": True, "which": which}
      restore = lambda: [setattr(o, k, v) for o, k, v in reversed(undo)]
      got = {}

      def req(name):
        got[name] = decl()
      for i in range(nthreads):
        sched.spawn("t%d" % (i + 1), req, "t%d" % (i + 1))
      out = sched.run()
      final = None
      if out == "quiescent" and not sched.errors:
        try:
          final = decl()
        except Exception:  # noqa
          final = None
      objs = []
      for o in list(got.values()) + [final]:
        if o is not None and not any(o is x for x in objs):
          objs.append(o)
      ident = lambda o: 0 if o is None else 1 + [k for k, x in enumerate(objs) if x is o][0]
      res = {"outcome": out, "made": len(objs), "got": [ident(got.get("t%d" % (i + 1))) for i in range(nthreads)], "final": ident(final),
             "errors": len(sched.errors), "errs": sched.errors[:1], "done": all(vt.state == "done" for vt in sched.threads if vt.name.startswith("t")),
             "choices": list(sched.choices), "klass": which, "ops": [[l[1], l[2]] for l in sched.log][:200]}
    finally:
      if restore:
        restore()
      for nm, v in saved_locks.items():
        setattr(ms, nm, v)
      sched.teardown()
  return res


def singleton_explore(klass_name, nthreads, bound, max_execs):
  """systematic exploration of the interleavings (pre-emption bounded; bound >= #ops is exhaustive)"""
  results = []

  def execute(prefix):
    r = singleton_run(klass_name, nthreads, dsched.ReplayPolicy(prefix, fallback=dsched.NoPreemptPolicy()))
    results.append(r)
    return r["choices"]
  n = dsched.explore_pb(execute, bound, max_execs)
  return n, results


# ------------------------------------------------------------------ C25
import sys, dis
from collections import OrderedDict


class _View:
  """a dict view: consumed by C code (list(), `in`) it is one atomic operation, consumed by a Python for-loop
  it can be pre-empted between elements - exactly what the interpreter allows"""

  def __init__(self, sched, real, what):
    self.sched, self.real, self.what = sched, real, what

  def __iter__(self):
    f = sys._getframe(1)
    opname = dis.opname[f.f_code.co_code[f.f_lasti]] if 0 <= f.f_lasti < len(f.f_code.co_code) else ""
    it = iter(self.real)
    if opname != "GET_ITER":
      return it
    sched, what = self.sched, self.what

    def gen():
      for x in it:               # the real iterator: raises RuntimeError if the registry grew meanwhile
        yield x
        sched.point("iter_" + what, "reg")
    return gen()

  def __contains__(self, x):
    return x in self.real

  def __len__(self):
    return len(self.real)


def registry_run(progs, policy, max_steps=1500):
  """progs: {thread: [op, ...]} with ops ["append", name] ["attr", name] ["ev_name", name] ["ev_num", name] ["name_for", name] ["inner", name]"""
  import miros.event as mev
  sched = dsched.Sched(policy, max_steps)
  # besides the registry's dictionary operations, every source line of the registry's own methods is a pre-emption point
  # (state kept next to the dictionary - a cache, a reverse map - is plain Python data)
  sched.trace_funcs = {("event.py", "*")}
  old_signals = mev.signals
  saved = {}
  for nm, shim in (("Lock", shims.SLock), ("RLock", shims.SRLock)):
    if hasattr(mev, nm):
      saved[nm] = getattr(mev, nm)
      setattr(mev, nm, shim)
  old_cur = dsched.CUR
  dsched.CUR = sched
  events = []
  try:
    fresh = mev.SignalSource()

    class Y(mev.SignalSource):
      def __contains__(self, k):
        sched.point("contains", "reg")
        return OrderedDict.__contains__(self, k)

      def __len__(self):
        sched.point("len", "reg")
        return OrderedDict.__len__(self)

      def __setitem__(self, k, v):
        sched.point("setitem", "reg")
        return OrderedDict.__setitem__(self, k, v)

      def __getitem__(self, k):
        sched.point("getitem", "reg")
        return OrderedDict.__getitem__(self, k)

      def items(self):
        sched.point("items", "reg")
        return _View(sched, OrderedDict.items(self), "items")

      def values(self):
        sched.point("values", "reg")
        return _View(sched, OrderedDict.values(self), "values")

      def keys(self):
        sched.point("keys", "reg")
        return _View(sched, OrderedDict.keys(self), "keys")
    fresh.__class__ = Y
    mev.signals = fresh
    known = {}       # name -> number as first observed by the harness, for ev_num

    def worker(tname, ops):
      for op in ops:
        k, name = op
        rec = [tname, k, name, 0, "", "ok"]
        try:
          if k == "append":
            fresh.append(name)
          elif k == "attr" and not hasattr(OrderedDict, name) and name not in ("highest_inner_signal", "append", "name_for_signal", "is_inner_signal"):
            rec[3] = getattr(fresh, name)
          elif k == "attr":
            rec[1] = k = "ev_name"        # such a name cannot be reached through attribute access: used through Event instead
            e = mev.Event(signal=name)
            rec[3], rec[4] = e.signal, e.signal_name
          elif k == "ev_name":
            e = mev.Event(signal=name)
            rec[3], rec[4] = e.signal, e.signal_name
          elif k == "ev_num":
            n = OrderedDict.get(fresh, name)
            if n is None:
              rec[5] = "skipped"
            else:
              e = mev.Event(signal=n)
              rec[3], rec[4] = e.signal, e.signal_name
          elif k == "name_for":
            n = OrderedDict.get(fresh, name)
            if n is None:
              rec[5] = "skipped"
            else:
              rec[3], rec[4] = n, fresh.name_for_signal(n)
          elif k == "inner":
            rec[4] = "T" if fresh.is_inner_signal(name) else "F"
        except dsched.SchedExit:
          raise
        except Exception as ex:  # noqa
          rec[5] = "raised:" + type(ex).__name__
        events.append(rec)
    for t, ops in sorted(progs.items()):
      sched.spawn(t, worker, t, ops)
    out = sched.run()
    for rec in events:       # what the code reports must be a number and a name: anything else is recorded as -1 / "?"
      if not isinstance(rec[3], int) or isinstance(rec[3], bool):
        rec[3] = -1
      if not isinstance(rec[4], str):
        rec[4] = "?"
    final = [[k, v if isinstance(v, int) else -1] for k, v in OrderedDict.items(fresh)]
    return {"outcome": out, "ev": events, "final": final, "errors": len(sched.errors), "errs": sched.errors[:1],
            "done": all(vt.state == "done" for vt in sched.threads), "schedule": [c[0] for c in sched.choices],
            "choices": list(sched.choices)}
  finally:
    sched.teardown()
    dsched.CUR = old_cur
    mev.signals = old_signals
    for nm, v in saved.items():
      setattr(mev, nm, v)
