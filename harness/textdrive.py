# C32: the token-level universe of TraceText.tla rendered with real material and fed to the real stripped().
import json, random
from . import common, tlc

TS = {"t1": "2017-11-05 15:17:39.424492", "t2": "2026-09-22 00:00:00.000001"}
WS = {"": "", "w": "   "}


def universe(maxlen):
  """TLC evaluates the lemmas of TraceText.tla and prints every text of the universe with its Norm"""
  r = tlc.run("TraceText.tla", "SPECIFICATION Spec\nCONSTANT MaxLen = %d\nCHECK_DEADLOCK FALSE\n" % maxlen, workers=4, timeout=3000)
  if not r.ok:
    raise common.MachineryError("TraceText.tla: %s %s" % (r.violated, r.error))
  return [p for p in r.printed if isinstance(p, dict) and "text" in p], r


def bodies(rng):
  """real record bodies: produced by trace() of real charts with assorted chart / state / signal names"""
  import miros.hsm as mh
  from miros.event import Event, signals, return_status
  out = []
  for cname in ["c", "75c8c", "my chart", "2020-01-01", "x]y"]:
    for sname, tname, sig in [("armed", "armed", "BATTERY_CHARGE"), ("s1", "s_2", "A"), ("outer", "inner.state", "Go_2")]:
      def mk(nm):
        def f(chart, e):
          if e.signal == signals.ENTRY_SIGNAL or e.signal == signals.EXIT_SIGNAL or e.signal == signals.INIT_SIGNAL:
            return return_status.HANDLED
          if e.signal_name == sig and nm == sname:
            return chart.trans(tfn)
          chart.temp.fun = chart.top
          return return_status.SUPER
        f.__name__ = nm
        return mh.spy_on(f)
      sfn = mk(sname)
      tfn = sfn if tname == sname else mk(tname)
      h = mh.HsmWithQueues()
      h.name = cname
      h.start_at(sfn)
      h.post_fifo(Event(signal=sig))
      h.next_rtc()
      lines = [l for l in h.trace().split("\n") if l.strip()]
      for l in lines:
        out.append(l.split("] ", 1)[1])        # the part after the timestamp, exactly as miros printed it
  rng.shuffle(out)
  return out


def clock_cases(rng, fails):
  """end to end: the trace() text of real charts under different clocks (fine, constant, whole seconds with microsecond == 0)
  must strip to the same lines - the records without their timestamps - whatever the clock said"""
  import miros.hsm as mh
  from miros.event import Event, signals, return_status
  from miros.hsm import stripped
  from .chartgen import FakeClock
  n = 0
  old = mh.stdlib_datetime
  try:
    for cname in ["c", "75c8c", "my chart", "7"]:
      per_clock = {}
      for mode in ("fine", "const", "whole", "coarse"):
        mh.stdlib_datetime = FakeClock(mode)

        def mk(nm, other):
          def f(chart, e):
            if e.signal in (signals.ENTRY_SIGNAL, signals.EXIT_SIGNAL, signals.INIT_SIGNAL):
              return return_status.HANDLED
            if e.signal_name == "A":
              return chart.trans(fns[other])
            chart.temp.fun = chart.top
            return return_status.SUPER
          f.__name__ = nm
          return mh.spy_on(f)
        fns = {}
        fns["s1"], fns["s2"] = mk("s1", "s2"), mk("s2", "s1")
        h = mh.HsmWithQueues()
        h.name = cname
        h.start_at(fns["s1"])
        for _ in range(rng.randint(1, 4)):
          h.post_fifo(Event(signal="A"))
          h.next_rtc()
        exp = ["[%s] e->%s() %s->%s" % (cname, t.signal if t.signal is not None else "start_at", t.start_state, t.end_state) for t in h.full.trace]
        text = h.trace()
        with stripped(text) as got:
          got = as_list(got)
        n += 1
        if got != exp[-len(got):] or len(got) != len(exp):
          fails.append({"kind": "clock", "clock": mode, "text": text, "got": got, "expected": exp})
        one = [l for l in text.split("\n") if l.strip()][-1]
        with stripped(one) as g1:
          g1 = as_list(g1)
        n += 1
        if g1 != exp[-1:]:
          fails.append({"kind": "clock-single-line", "clock": mode, "text": one, "got": g1, "expected": exp[-1:]})
  finally:
    mh.stdlib_datetime = old
  return n


def render(text, b1, b2, lead_nl, blank="   "):
  """`blank`: what the whitespace token of the universe stands for (spaces, a tab, a mix - all are whitespace around a line)"""
  WS = {"": "", "w": blank}
  lines = []
  for t in text:
    if t["k"] == "blank":
      lines.append(WS[t["ws"]])
    else:
      lines.append(WS[t["lead"]] + "[" + TS[t["ts"]] + "] " + {"b1": b1, "b2": b2}[t["body"]] + WS[t["trail"]])
  s = "\n".join(lines)
  return ("\n" + s + "\n") if lead_nl else s


def as_list(x):
  return [x] if isinstance(x, str) else list(x)


def run(maxlen, seed, pairs_cap):
  from miros.hsm import stripped
  rng = random.Random(seed)
  uni, r = universe(maxlen)
  bs = bodies(rng)
  recs, fails = [], []
  results = {}
  for k, u in enumerate(uni):
    text, norm = u["text"], u["norm"]
    if not norm:
      continue                                   # no record at all: not a trace miros produces
    b1, b2 = bs[k % len(bs)], bs[(k * 7 + 3) % len(bs)]
    if b1 == b2:
      b2 = bs[(k * 7 + 4) % len(bs)]
    for lead_nl, blank in ((False, "   "), (True, "   "), (False, "\t"), (True, " \t "), (False, "\t  ")):
      src = render(text, b1, b2, lead_nl, blank)
      with stripped(src) as got:
        got = as_list(got)
      exp = [{"b1": b1, "b2": b2}[x] for x in norm]
      results[(k, lead_nl, blank)] = (got, norm, b1, b2)
      recs.append({"text": src, "got": got, "expected": exp})
      if got != exp:
        fails.append({"kind": "norm", "text": src, "got": got, "expected": exp})
  # pairs: equal after stripping  <=>  equal Norm (same bodies substituted)
  keys = list(results)
  rng.shuffle(keys)
  npairs = 0
  byb = {}
  for key in keys:
    byb.setdefault((results[key][2], results[key][3]), []).append(key)
  for (b1, b2), ks in byb.items():
    for i in range(len(ks)):
      for j in range(i + 1, min(len(ks), i + 6)):
        a, b = results[ks[i]], results[ks[j]]
        npairs += 1
        if (a[0] == b[0]) != (a[1] == b[1]):
          fails.append({"kind": "pair", "a": a[0], "b": b[0], "norm_a": a[1], "norm_b": b[1]})
        if npairs >= pairs_cap:
          break
  nclock = clock_cases(rng, fails)
  return {"universe": len(uni), "rendered": len(recs) + nclock, "pairs": npairs, "fails": fails, "samples": recs[:3], "tlc": r, "clock_cases": nclock}
