# Harness B system driver: several real ActiveObjects + the fabric + timed sources + driver threads that call
# the public API, all under the deterministic scheduler with virtual (integer) time.
import json, random, os
from . import common, dsched, shims, chartgen, tlc

SIGS = ["A", "B", "C"]


class SysRun:
  def __init__(self, cfg, policy, max_steps=4000):
    self.cfg, self.policy = cfg, policy
    self.sched = dsched.Sched(dsched.NoPreemptPolicy(), max_steps)
    self.ev = []            # property-level event log
    self.eid = 0
    self.slots = {}         # (ao, slot) -> id returned by a timed post
    self.nsrc = 0

  def now(self):
    return int(self.sched.now)

  def emit(self, *rec):
    self.ev.append(list(rec) + [self.now()])

  # ---- charts: one state per AO; handlers log the dispatch and may run scripted API calls ----
  def make_ao(self, ma, spec):
    me, name = self, spec["name"]
    chart = {"n": 1, "par": [0], "init": [0], "sigs": list(SIGS), "react": [[["hook", 0]] * len(SIGS)], "eff": [], "bad": [],
             "build": "dyn", "reg": [], "xstyle": ["h"], "estyle": ["h"], "istyle": ["h"], "spied": spec.get("spied", True),
             "host": "ao", "cap": self.cfg.get("cap", 50)}
    script = chartgen.Script(chart, limit=10**9)
    script.build_dyn(spec.get("spied", True))
    orig = script.answer
    hops = spec.get("handler_ops", {})

    def answer(hsm, i, e):
      sg = e.signal_name
      if sg in SIGS:
        eid = e.payload if isinstance(e.payload, int) else 0
        me.emit("disp", name, sg, eid)
        for op in hops.get(sg, []):
          me.do_op(op, "handler")
      return orig(hsm, i, e)
    script.answer = answer
    ao = ma.ActiveObject(name=name, instrumented=spec.get("instrumented", True))
    ao.locking_deque.deque.vname = "dq_" + name
    ao.locking_deque.locking_queue.vname = "tok_" + name
    return ao, script

  def event(self, sig):
    from miros.event import Event
    self.eid += 1
    return Event(signal=sig, payload=self.eid)

  # ---- one scripted API call -------------------------------------------------------------------
  def do_op(self, op, who):
    from miros.event import Event
    import miros.activeobject as ma
    k = op[0]
    if k == "sleep":
      ma.time.sleep(op[1])
      return
    if k == "settle":
      # wait until no other thread can run at this instant (everything posted so far has been digested)
      sc, mevt = self.sched, self.sched.me()
      sc.point("settle", "", (), enabled=lambda: all(
        vt is mevt or vt.state == "done" or vt.pending[0] == "settle" or (not vt.is_enabled() and not getattr(vt, "stalled", False)) for vt in sc.threads))
      self.emit("settle", who)
      return
    if k == "wait_started":
      # a driver that must not call stop() on an object whose start_at has not returned yet
      self.sched.point("wait_started", "", (op[1],), enabled=lambda: op[1] in self.__dict__.setdefault("started_names", set()))
      return
    if k == "wait_pubs":
      # a driver that acts one moment after the n-th publication has been handed to the fabric (wherever a slow thread has pushed that moment)
      self.sched.point("wait_pubs", "", (op[1],), enabled=lambda: self.__dict__.get("npub", 0) >= op[1])
      return
    if k in ("fstart", "fstop"):
      self.emit("call", k, "", who)
      (self.fabric.start if k == "fstart" else self.fabric.stop)()
      self.emit("ret", k, "", who)
      return
    name = op[1]
    ao = self.aos[name]
    if k == "start":
      self.emit("call", "start", name, who)
      ao.start_at(self.scripts[name].fn[1])
      self.__dict__.setdefault("started_names", set()).add(name)
      self.emit("ret", "start", name, who)
    elif k == "sub":
      self.emit("call", "sub", name, op[2], op[3], who)
      # the kind is a string built at run time (as if read from a configuration): equal to 'fifo'/'lifo', not the same object as a literal
      ao.subscribe(Event(signal=op[2]), queue_type="".join(list(op[3]))) if op[3] != "default" else ao.subscribe(Event(signal=op[2]))
      self.emit("ret", "sub", name, op[2], "fifo" if op[3] == "default" else op[3], who)
    elif k == "pub":
      e = self.event(op[2])
      self.emit("call", "pub", name, op[2], e.payload, op[3], who)
      ao.publish(e, priority=op[3])
      self.npub = self.__dict__.get("npub", 0) + 1
      self.emit("ret", "pub", name, op[2], e.payload, op[3], who)
    elif k == "post":
      e = self.event(op[3])
      self.emit("call", "post", name, op[2], e.payload, who)
      (ao.post_fifo if op[2] == "fifo" else ao.post_lifo)(e)
      self.emit("ret", "post", name, op[2], e.payload, who)
    elif k == "tpost":
      _, _, kind, sig, period, times, deferred, slot = op
      self.nsrc += 1
      src = self.nsrc
      import threading as _th
      self.sched.__dict__.setdefault("timer_src_by_thread", {})[_th.get_ident()] = src
      self.emit("call", "tpost", name, src, kind, sig, period, times, 1 if deferred else 0, who)
      try:
        r = (ao.post_fifo if kind == "fifo" else ao.post_lifo)(Event(signal=sig), period=period, times=times, deferred=deferred)
        self.slots[(name, slot)] = (src, r, sig)
        self.emit("ret", "tpost", name, src, "ok", who)
      except Exception as ex:  # noqa
        self.emit("ret", "tpost", name, src, "raised:" + type(ex).__name__, who)
    elif k == "cancel":
      src, uid, sig = self.slots.get((name, op[2]), (0, None, ""))
      how = op[3]
      if uid is not None and how == "rebuilt":
        import uuid as _u
        uid = _u.UUID(str(uid))               # an equal id obtained from text (not the same object)
      self.emit("call", "cancel", name, src, who)
      if uid is not None:
        ao.cancel_event(uid)
      self.emit("ret", "cancel", name, src, who)
    elif k == "cancels":
      sig, how = op[2], op[3]
      e = Event(signal=sig)
      if how == "rebuilt":
        e = Event.loads(Event.dumps(e))       # a name that went through text
      self.emit("call", "cancels", name, sig, who)
      ao.cancel_events(e)
      self.emit("ret", "cancels", name, sig, who)
    elif k == "stop":
      self.emit("call", "stop", name, who)
      ao.stop()
      self.emit("ret", "stop", name, who)
    else:
      raise ValueError(op)

  def driver(self, dname, ops):
    for op in ops:
      self.do_op(op, dname)
    self.emit("done", dname)

  def run(self):
    import miros.hsm as mh
    cfg, sched = self.cfg, self.sched
    res = {}
    old_qs = mh.HsmWithQueues.QUEUE_SIZE
    with shims.installed(sched) as ma:
      old_aq = ma.ActiveObject.__dict__.get("QUEUE_SIZE")
      try:
        mh.HsmWithQueues.QUEUE_SIZE = cfg.get("cap", 50)
        if cfg.get("tcap") is not None:
          ma.ActiveObject.QUEUE_SIZE = cfg["tcap"]          # capacity of the tracked timed sources (C31)
        me = self

        def name_for_thread(t):
          tgt = getattr(t, "_target", None)
          nm = getattr(tgt, "__name__", "")
          if nm == "run_event":
            owner = getattr(tgt, "__self__", None)
            return "ao_" + str(getattr(owner, "name", "?"))
          base = {"thread_runner_fifo": "fab_fifo", "thread_runner_lifo": "fab_lifo", "thread_runner": "writer"}.get(nm)
          if base:
            k = sum(1 for vt in sched.threads if vt.name.startswith(base))
            return base if k == 0 else "%s_%d" % (base, k + 1)
          if nm == "post_event_thread_runner":
            import threading as _th
            return "tm%d" % getattr(sched, "timer_src_by_thread", {}).get(_th.get_ident(), 0)
          return None
        sched.name_for_thread = name_for_thread
        if cfg.get("trace_funcs"):
          sched.trace_funcs = {tuple(x) for x in cfg["trace_funcs"]}
        self.fabric = ma.ActiveFabric()
        self.fabric.fifo_fabric_queue.vname = "pq_fifo"
        self.fabric.lifo_fabric_queue.vname = "pq_lifo"
        self.aos, self.scripts = {}, {}
        for spec in cfg["aos"]:
          self.aos[spec["name"]], self.scripts[spec["name"]] = self.make_ao(ma, spec)

        def observe(sc):
          seq, th, op, obj, args, r = sc.log[sc.last_rec]
          if not isinstance(obj, str):
            return
          if obj in ("pq_fifo", "pq_lifo"):
            kind = obj[3:]
            if op in ("put", "put_nowait") and args and isinstance(args[0], list):
              me.emit("put", kind, args[0][0] if isinstance(args[0][0], int) else 0, args[0][1], args[0][2], th)
            elif op in ("get", "get_nowait") and isinstance(r, list):
              me.emit("get", kind, r[0] if isinstance(r[0], int) else 0, r[1], r[2], th)
          if obj.startswith("dq_") and op in ("append", "appendleft", "popleft", "pop", "rotate", "clear"):
            # queue-level record for SystemTrace.tla: items as strings ("e<id>" numbered by the harness, "s:<SIGNAL>" otherwise)
            name = obj[3:]
            it = args[0] if op in ("append", "appendleft") and args else (r if op in ("popleft", "pop") else "")
            me.emit("qop", name, op, item_str(it), th, [item_str(shims.ident(x)) for x in me.aos[name].locking_deque.deque.raw()])
          if obj.startswith("dq_") and op in ("append", "appendleft"):
            a = args[0] if args else ""
            name = obj[3:]
            dq = [shims.ident(x) for x in me.aos[name].locking_deque.deque.raw()]
            src = int(th[2:]) if th.startswith("tm") and th[2:].isdigit() else 0
            me.emit("qapp", name, a if isinstance(a, int) else 0, a if isinstance(a, str) else "", op, th,
                    [x if isinstance(x, int) else 0 for x in dq], src)
        sched.sync_observers.append(observe)     # records appear at the moment the operation took effect
        sched.on_stall = lambda name, d: me.emit("stall", name, d)
        for dname, ops in sorted(cfg["drivers"].items()):
          sched.spawn(dname, self.driver, dname, ops)
        sched.policy = self.policy
        out = sched.run()
        alive = sorted(vt.name for vt in sched.threads if vt.state != "done")
        res = {"outcome": out, "ev": self.ev, "errors": sched.errors, "blocked": sched.blocked(), "steps": sched.steps,
               "alive": alive, "horizon": self.policy.time_limit if self.policy.time_limit is not None else -1,
               "drivers_done": all(vt.state == "done" for vt in sched.threads if vt.name in cfg["drivers"]),
               "schedule": [c[0] for c in sched.choices], "end_time": self.now(), "stalls": list(sched.stalls)}
      finally:
        mh.HsmWithQueues.QUEUE_SIZE = old_qs
        if cfg.get("tcap") is not None:
          if old_aq is None:
            try:
              del ma.ActiveObject.QUEUE_SIZE
            except AttributeError:
              pass
          else:
            ma.ActiveObject.QUEUE_SIZE = old_aq
        left = sched.teardown()
        if left:
          res["leaked_threads"] = left
    return res


def item_str(x):
  if isinstance(x, bool):
    return "s:?"
  if isinstance(x, int):
    return "e%d" % x
  if isinstance(x, str):
    return "s:" + x
  return "s:?"


def run_one(cfg, policy, max_steps=4000):
  return SysRun(cfg, policy, max_steps).run()
