# Cooperative stand-ins for the primitives miros takes from the standard library.  Each public
# operation first announces itself to the scheduler (a scheduling point), then performs the real
# data-structure operation.  Blocking is virtual: a blocked thread is simply not schedulable.
import collections, heapq, queue as _queue, uuid as _uuid, itertools, contextlib
from . import dsched

_ids = itertools.count(1)


def _S():
  return dsched.CUR


def _pt(op, obj, args=(), enabled=None, wake=None, deadline=None):
  s = dsched.CUR
  if s is None:
    return None
  return s.point(op, obj, args, enabled, wake, deadline)


def _res(r):
  s = dsched.CUR
  if s is not None:
    s.result(r)
  return r


class SQueue:
  """queue.Queue with virtual blocking"""
  kind = "Q"

  def __init__(self, maxsize=0):
    self.maxsize = maxsize
    self.items = collections.deque()
    self.unfinished = 0
    self.vname = "%s%d" % (self.kind, next(_ids))

  # raw (non-yielding) views for the harness
  def _size(self):
    return len(self.items)

  def _full(self):
    return 0 < self.maxsize <= self._size()

  def _put(self, item):
    self.items.append(item)
    self.unfinished += 1

  def _get(self):
    return self.items.popleft()

  def put(self, item, block=True, timeout=None):
    if not block:
      return self.put_nowait(item)
    _pt("put", self, (ident(item),), enabled=lambda: not self._full())
    if self._full():          # only reachable without a scheduler
      raise _queue.Full
    self._put(item)
    _res(self._size())

  def put_nowait(self, item):
    _pt("put_nowait", self, (ident(item),))
    if self._full():
      _res("Full")
      raise _queue.Full
    self._put(item)
    _res(self._size())

  def get(self, block=True, timeout=None):
    if not block:
      return self.get_nowait()
    _pt("get", self, enabled=lambda: self._size() > 0)
    if self._size() == 0:
      raise _queue.Empty
    r = self._get()
    _res(ident(r))
    return r

  def get_nowait(self):
    _pt("get_nowait", self)
    if self._size() == 0:
      _res("Empty")
      raise _queue.Empty
    r = self._get()
    _res(ident(r))
    return r

  def qsize(self):
    _pt("qsize", self)
    return _res(self._size())

  def full(self):
    _pt("full", self)
    return _res(self._full())

  def empty(self):
    _pt("empty", self)
    return _res(self._size() == 0)

  def task_done(self):
    if self.unfinished <= 0:
      raise ValueError("task_done() called too many times")
    self.unfinished -= 1

  def join(self):
    _pt("qjoin", self, enabled=lambda: self.unfinished == 0)


class SPriorityQueue(SQueue):
  """queue.PriorityQueue: the REAL heap order (heapq on the items' own comparisons)"""
  kind = "PQ"

  def __init__(self, maxsize=0):
    super().__init__(maxsize)
    self.items = []

  def _put(self, item):
    heapq.heappush(self.items, item)
    self.unfinished += 1

  def _get(self):
    return heapq.heappop(self.items)


_D = collections.deque


def ident(x):
  """small stable identity of a queued item for the trace (event id when it has one)"""
  if type(x).__name__ == "FabricEvent":        # [event id, priority, signal name]
    return [ident(x.event), x.priority, x.event.signal_name]
  if isinstance(x, (str, int)) or x is None:
    return x if x is not None else ""
  try:
    p = x.payload if "payload" in getattr(x, "__dict__", {}) else None
  except Exception:
    p = None
  if isinstance(p, int) and not isinstance(p, bool):
    return p
  try:
    sn = getattr(x, "signal_name", None)
  except Exception:
    sn = None
  return sn if isinstance(sn, str) else str(x)[:24]


class SDeque(collections.deque):
  """collections.deque whose operations are scheduling points"""

  def __init__(self, *a, **kw):
    super().__init__(*a, **kw)
    self.vname = "D%d" % next(_ids)

  def raw(self):
    return list(_D.__iter__(self))

  def rawlen(self):
    return _D.__len__(self)

  def append(self, x):
    _pt("append", self, (ident(x),))
    _D.append(self, x)
    _res(_D.__len__(self))

  def appendleft(self, x):
    _pt("appendleft", self, (ident(x),))
    _D.appendleft(self, x)
    _res(_D.__len__(self))

  def popleft(self):
    _pt("popleft", self)
    r = _D.popleft(self)
    _res(ident(r))
    return r

  def pop(self):
    _pt("pop", self)
    r = _D.pop(self)
    _res(ident(r))
    return r

  def rotate(self, n=1):
    _pt("rotate", self, (n,))
    _D.rotate(self, n)
    _res(n)

  def clear(self):
    _pt("clear", self)
    _D.clear(self)
    _res(0)

  def __len__(self):
    _pt("len", self)
    return _res(_D.__len__(self))

  def __getitem__(self, i):
    _pt("getitem", self, (i,))
    return _D.__getitem__(self, i)

  def __iter__(self):
    _pt("iter", self)
    return iter(list(_D.__iter__(self)))    # snapshot, like iterating under the GIL without mutation


class SEvent:
  """threading.Event"""

  def __init__(self):
    self.flag = False
    self.vname = "E%d" % next(_ids)

  def set(self):
    _pt("set", self)
    self.flag = True

  def clear(self):
    _pt("clear", self)
    self.flag = False

  def is_set(self):
    _pt("is_set", self)
    return _res(self.flag)

  isSet = is_set

  def wait(self, timeout=None):
    _pt("wait", self, enabled=lambda: self.flag)
    return True


class SThread:
  """threading.Thread managed by the scheduler"""

  def __init__(self, group=None, target=None, name=None, args=(), kwargs=None, daemon=None):
    self._target, self._args, self._kwargs = target, args, kwargs or {}
    self.name = name
    self.daemon = daemon
    self.vt = None
    self.n = next(_ids)

  def run(self):
    if self._target:
      self._target(*self._args, **self._kwargs)

  def start(self):
    s = dsched.CUR
    if s is None:
      raise RuntimeError("SThread.start without a scheduler")
    _pt("tstart", "T%d" % self.n)
    if self.vt is not None:
      raise RuntimeError("threads can only be started once")
    k = getattr(s, "fail_thread_start", 0)
    if k:
      # an armed fault: the k-th attempt to start a thread fails as it does when the process has run out of threads
      s.fail_thread_start = k - 1
      if k == 1:
        raise RuntimeError("can't start new thread")
    nm = s.name_for_thread(self) if hasattr(s, "name_for_thread") else None
    self.vt = s.spawn(nm or ("t%d" % self.n), self.run)
    _res(self.vt.name)

  def join(self, timeout=None):
    s = dsched.CUR
    if self.vt is None:
      raise RuntimeError("cannot join thread before it is started")
    if s is not None and s.me() is self.vt:
      raise RuntimeError("cannot join current thread")
    _pt("tjoin", self.vt.name, enabled=lambda: self.vt.state == "done")

  def is_alive(self):
    _pt("is_alive", self.vt.name if self.vt else "T%d" % self.n)
    return _res(self.vt is not None and self.vt.state != "done")


class SRLock:
  """threading.RLock"""

  def __init__(self):
    self.owner, self.count = None, 0
    self.vname = "L%d" % next(_ids)

  def _me(self):
    s = dsched.CUR
    vt = s.me() if s else None
    return vt.name if vt else "driver"

  def acquire(self, blocking=True, timeout=-1):
    me = self._me()
    s = dsched.CUR
    if not blocking or (timeout is not None and timeout >= 0):
      # acquire(False) / acquire(timeout=t): gives up (returns False) when the lock is not free now / by the deadline (virtual time)
      deadline = (s.now if s else 0.0) + (0.0 if not blocking else timeout)
      _pt("acquire", self, enabled=lambda: self.owner in (None, me) or (dsched.CUR is not None and dsched.CUR.now >= deadline), deadline=deadline)
      if self.owner not in (None, me):
        _res(False)
        return False
    else:
      _pt("acquire", self, enabled=lambda: self.owner in (None, me))
    self.owner, self.count = me, self.count + 1
    _res(self.count)
    return True

  def release(self):
    me = self._me()
    _pt("release", self)
    if self.owner != me:
      _res("RuntimeError")
      raise RuntimeError("cannot release un-acquired lock")
    self.count -= 1
    if self.count == 0:
      self.owner = None
    _res(self.count)

  __enter__ = acquire

  def __exit__(self, *a):
    self.release()


class SLock(SRLock):
  """threading.Lock (not re-entrant)"""

  def acquire(self, blocking=True, timeout=-1):
    me = self._me()
    s = dsched.CUR
    if not blocking or (timeout is not None and timeout >= 0):
      deadline = (s.now if s else 0.0) + (0.0 if not blocking else timeout)
      _pt("acquire", self, enabled=lambda: self.owner is None or (dsched.CUR is not None and dsched.CUR.now >= deadline), deadline=deadline)
      if self.owner is not None:
        _res(False)
        return False
    else:
      _pt("acquire", self, enabled=lambda: self.owner is None)
    self.owner, self.count = me, 1
    _res(1)
    return True

  def release(self):
    _pt("release", self)
    if self.owner is None:
      _res("RuntimeError")
      raise RuntimeError("release unlocked lock")
    self.owner, self.count = None, 0
    _res(0)

  __enter__ = acquire


class STime:
  """the `time` module: sleep() in virtual time"""

  def sleep(self, d):
    s = dsched.CUR
    if d < 0:
      raise ValueError("sleep length must be non-negative")     # as the real time.sleep does
    if s is None:
      return
    w = s.now + d
    _pt("sleep", "clock", (d,), wake=w)

  def time(self):
    s = dsched.CUR
    return s.now if s else 0.0

  monotonic = time
  perf_counter = time


class SUuid:
  """deterministic uuid4; the rest of the uuid module unchanged"""
  NAMESPACE_DNS = _uuid.NAMESPACE_DNS
  UUID = _uuid.UUID

  def __init__(self):
    self.k = 0

  def uuid4(self):
    self.k += 1
    return _uuid.UUID(int=(0xABCDEF00 << 96) | self.k)

  def uuid5(self, ns, name):
    return _uuid.uuid5(ns, name)


@contextlib.contextmanager
def installed(sched):
  """miros.activeobject resolves Thread/Queue/... as module globals at call time: swap them, and
  re-create the lazily built singletons so that every run starts from a fresh fabric"""
  import miros.activeobject as ma
  from miros.singleton import SingletonDecorator
  names = ["Thread", "Queue", "PriorityQueue", "ThreadEvent", "deque", "time", "uuid",
           "FiberThreadEvent", "ActiveFabric", "InstrumentionWriter", "SourceThreadEvent"]
  old = {n: getattr(ma, n) for n in names}
  old_cur = dsched.CUR
  try:
    ma.Thread, ma.Queue, ma.PriorityQueue, ma.ThreadEvent = SThread, SQueue, SPriorityQueue, SEvent
    ma.deque, ma.time, ma.uuid = SDeque, STime(), SUuid()
    for lockname, shim in (("Lock", SLock), ("RLock", SRLock)):
      if hasattr(ma, lockname):                 # present only if the code under test imports it
        old[lockname] = getattr(ma, lockname)
        setattr(ma, lockname, shim)

    class SourceThreadEvent(SEvent):
      pass
    ma.SourceThreadEvent = SourceThreadEvent
    ma.FiberThreadEvent = SingletonDecorator(SourceThreadEvent)
    ma.ActiveFabric = SingletonDecorator(ma.ActiveFabricSource)
    ma.InstrumentionWriter = SingletonDecorator(ma.InstrumenationWriterClass)
    # (the declarations the module itself made - what a client's first request goes through - stay reachable for the singleton check)
    sched.declared = {n: old[n] for n in ("FiberThreadEvent", "ActiveFabric", "InstrumentionWriter")}
    dsched.CUR = sched
    yield ma
  finally:
    dsched.CUR = old_cur
    for n, v in old.items():
      setattr(ma, n, v)
