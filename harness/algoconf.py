# spec -> code for HsmAlgo.tla: behaviours TLC generates from the transcription of
# dispatch/trans_/init are replayed into the real HsmEventProcessor and the complete
# handler-call sequences are compared call for call.  Agreement means the TLC result on
# HsmAlgo speaks about the code; disagreement is reported as drift of the transcription
# (the property verdict never depends on it - that comes from trace validation).
import json
from . import common, tlc, chartgen

KIND = {"SEARCH_FOR_SUPER_SIGNAL": "SUPER", "ENTRY_SIGNAL": "entry", "A": "EVT"}


def cfg(n, maxbranch, fix, mode, export=False, view=True):
  s = "SPECIFICATION Spec\nCONSTANTS N = %d\nMaxBranch = %d\nFixMaxIndex = %s\nMode = \"%s\"\n" % (
    n, maxbranch, "TRUE" if fix else "FALSE", mode)
  s += "INVARIANT Conform\nINVARIANT NeverRaises\nINVARIANT Bounded\nCHECK_DEADLOCK FALSE\n"
  if export:
    s += "INVARIANT Export\n"
  elif view:
    s += "VIEW NoClog\n"
  return s


def chart_of(beh):
  """a one-step chart realising the exported behaviour"""
  par, clog, mode = list(beh["par"]), beh["clog"], beh["mode"]
  n = len(par)
  xstyle, init = ["f"] * n, [0] * n
  for i, (k, st) in enumerate(clog):
    if k == "exitH":
      xstyle[st - 1] = "h"
    elif k == "initT":
      init[st - 1] = clog[i + 1][1]
  react = [[["none", 0]] for _ in range(n)]
  if mode == "dispatch":
    react[beh["S"] - 1][0] = ["tran", beh["T"]]
    cur0 = clog[0][1]
  else:
    cur0 = clog[0][1]
  chart = {"n": n, "par": par, "init": init, "sigs": ["A"], "react": react, "eff": [], "bad": [], "build": "dyn", "reg": [],
           "xstyle": xstyle, "estyle": ["h"] * n, "istyle": ["h"] * n, "spied": False, "host": "plain", "cap": 5}
  return chart, cur0


def real_clog(beh):
  chart, cur0 = chart_of(beh)
  if beh["mode"] == "dispatch":
    ev = chartgen.run_chart(chart, [["start", cur0, "noinit"], ["dispatch", "A"]])
    rec = ev[-1]
  else:
    ev = chartgen.run_chart(chart, [["start", cur0]])
    rec = ev[0]
  out = []
  for sig, st, status, _m, _e in rec["log"]:
    if sig == "EXIT_SIGNAL":
      out.append(["exit", st])
    elif sig == "INIT_SIGNAL":
      out.append(["initT" if status == "TRAN" else "initH", st])
    else:
      out.append([KIND.get(sig, sig), st])
  return out, rec, chart


def model_clog(beh):
  out = []
  for k, st in beh["clog"]:
    if st == 0:
      continue            # calls on `top` are not observable from the handlers
    out.append(["exit" if k in ("exitH", "exitF", "exitS") else k, st])
  return out


def run(n, maxbranch, fix, mode, num, depth, seed, timeout=600):
  """returns (n_behaviours, n_agree, first_disagreement or None, final-state agreement count)"""
  r = tlc.run("HsmAlgo.tla", cfg(n, maxbranch, fix, mode, export=True), workers=1,
              simulate="num=%d" % num, depth=depth, seed=seed, timeout=timeout)
  if r.violated and r.violated != "Export":
    return {"behaviours": 0, "agree": 0, "violated": r.violated, "first": None, "cur_agree": 0}
  behs, seen = [], set()
  for p in r.printed:
    k = json.dumps(p, sort_keys=True)
    if k not in seen:
      seen.add(k)
      behs.append(p)
  agree = cur_agree = 0
  first = None
  for b in behs:
    real, rec, chart = real_clog(b)
    if rec["outcome"] == "ok" and rec["cur"] == b["cur"]:
      cur_agree += 1
    if real == model_clog(b):
      agree += 1
    elif first is None:
      first = {"behaviour": b, "real": real, "model": model_clog(b)}
  return {"behaviours": len(behs), "agree": agree, "first": first, "cur_agree": cur_agree, "violated": None}
