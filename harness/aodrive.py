# Harness B drivers for the active object: real ActiveObject / LockingDeque code run under the
# deterministic scheduler, with posting threads, optional self-posting handlers and stop().
import random, json
from . import common, dsched, shims, chartgen


class AORun:
  """One execution: build the world, start the AO, run it to its idle state, then the scenario."""

  def __init__(self, cfg, policy, max_steps=3000):
    self.cfg, self.policy, self.max_steps = cfg, policy, max_steps
    self.sched = dsched.Sched(dsched.NoPreemptPolicy(), max_steps)
    self.dispatched = []       # event ids in dispatch order (from the chart's independent log)
    self.rtc_overlap = False
    self.in_rtc = 0

  # chart: one state that handles A/B/C internally; reactions may post to the AO itself
  def chart(self):
    sp = self.cfg.get("selfposts", {})       # {"A": [["post_fifo","B"]], ...}
    eff = [[1, sg, lst] for sg, lst in sp.items()]
    if self.cfg.get("nested"):
      # a composite state s1 whose initial transition leads into s2; A moves between its substates s2 and s3, B and C are hooks:
      # start_at(s1) settles in s2, so "the state passed to start_at" and "the current state" differ
      return {"n": 3, "par": [0, 1, 1], "init": [2, 0, 0], "sigs": ["A", "B", "C"],
              "react": [[["none", 0], ["none", 0], ["none", 0]], [["tran", 3], ["hook", 0], ["hook", 0]], [["tran", 2], ["hook", 0], ["hook", 0]]],
              "eff": [[2, sg, lst] for sg, lst in sp.items()] + [[3, sg, lst] for sg, lst in sp.items()], "bad": [], "build": "dyn", "reg": [],
              "xstyle": ["h"] * 3, "estyle": ["h"] * 3, "istyle": ["h"] * 3, "spied": bool(self.cfg.get("spied", False)), "host": "ao",
              "cap": self.cfg["cap"]}
    if self.cfg.get("toggle"):
      # two sibling states, A toggles between them (a trace record per A), B and C are handled internally (hooks)
      return {"n": 2, "par": [0, 0], "init": [0, 0], "sigs": ["A", "B", "C"],
              "react": [[["tran", 2], ["hook", 0], ["hook", 0]], [["tran", 1], ["hook", 0], ["hook", 0]]],
              "eff": eff + [[2, sg, lst] for sg, lst in sp.items()], "bad": [], "build": "dyn", "reg": [],
              "xstyle": ["h", "h"], "estyle": ["h", "h"], "istyle": ["h", "h"], "spied": bool(self.cfg.get("spied", False)), "host": "ao",
              "cap": self.cfg["cap"]}
    return {"n": 1, "par": [0], "init": [0], "sigs": ["A", "B", "C"],
            "react": [[["hook", 0], ["hook", 0], ["hook", 0]]], "eff": eff, "bad": [], "build": "dyn", "reg": [],
            "xstyle": ["h"], "estyle": ["h"], "istyle": ["h"], "spied": bool(self.cfg.get("spied", False)), "host": "ao",
            "cap": self.cfg["cap"]}

  def run(self):
    import miros.hsm as mh
    cfg, sched = self.cfg, self.sched
    old_qs = mh.HsmWithQueues.QUEUE_SIZE
    res = {}
    with shims.installed(sched) as ma:
      try:
        mh.HsmWithQueues.QUEUE_SIZE = cfg["cap"]
        ch = self.chart()
        if cfg.get("wrapped"):
          ch["hstyle"] = "wrapped"          # un-instrumented state functions that carry a decorator of the user's own
        script = chartgen.Script(ch, limit=10**9)
        script.build_dyn(bool(cfg.get("spied", False)))
        self.script = script
        me = self
        orig_answer = script.answer

        def answer(hsm, i, e):
          if e.signal_name in ("A", "B", "C"):
            me.in_rtc += 1
            if me.in_rtc > 1:
              me.rtc_overlap = True
            me.dispatched.append(e.payload)
            try:
              return orig_answer(hsm, i, e)
            finally:
              me.in_rtc -= 1
          return orig_answer(hsm, i, e)
        script.answer = answer

        def name_for_thread(t):
          tgt = getattr(t, "_target", None)
          nm = getattr(tgt, "__name__", "")
          if nm == "run_event":
            return "C"
          if nm == "thread_runner_fifo":
            return "fab_fifo"
          if nm == "thread_runner_lifo":
            return "fab_lifo"
          if nm == "thread_runner":
            return "writer"
          if nm == "post_event_thread_runner":
            sched.ntimer = getattr(sched, "ntimer", 0) + 1
            return "tm%d" % sched.ntimer
          return None
        sched.name_for_thread = name_for_thread
        # (an anonymous active object derives a name for itself from its start state)
        ao = (ma.ActiveObject(instrumented=bool(cfg.get("spied", False))) if cfg.get("anon")
              else ma.ActiveObject(name="ao", instrumented=bool(cfg.get("spied", False))))
        self.ao = ao
        if cfg.get("live"):
          # live spy / live trace on: every line goes through the writer thread's queue while posters keep posting
          ao.live_spy, ao.live_trace = True, True
          me.live_spy_lines, me.live_trc_lines = [], []
          ao.register_live_spy_callback(lambda line: me.live_spy_lines.append(line))
          ao.register_live_trace_callback(lambda line: me.live_trc_lines.append(line))
        ao.locking_deque.deque.vname = "dq"
        ao.locking_deque.locking_queue.vname = "tokens"
        me.snaps = {}

        def snap(sc):
          me.snaps[sc.last_rec] = ([shims.ident(x) for x in ao.locking_deque.deque.raw()], ao.locking_deque.locking_queue._size())
        sched.observers.append(snap)
        if cfg.get("early"):
          # the posters race the start of the object: start_at runs in a scheduled thread of its own
          sched.spawn("starter", lambda: ao.start_at(script.fn[1]))
          warm = 0
        else:
          try:
            ao.start_at(script.fn[1])
          except Exception as ex:  # noqa   start_at itself failed: an execution that ends in an error before anything was posted
            import traceback as _tb
            res.update({"outcome": "error", "dq": [], "tokens": 0, "dispatched": [], "errors": [("start_at", type(ex).__name__, _tb.format_exc()[-1500:])],
                        "blocked": [], "steps": 0, "ops": [], "rtc_overlap": False, "stopped": False, "schedule": [], "posters_done": False})
            return res
          # C23: what the chart says about itself once start_at has returned (nothing has been posted yet)
          me.after_start = me.self_description()
          sched.run()                       # warm-up: every service thread reaches its blocking point
          warm = len(sched.log)
          self.warm_choices = len(sched.choices)
        for p, prog in sorted(cfg["progs"].items()):
          sched.spawn(p, self.poster, p, prog)
        if cfg.get("stop"):
          sched.spawn("stopper", self.stopper)
        sched.policy = self.policy
        if cfg.get("replay") is not None:
          res["replay"] = self.replay(cfg["replay"])
        out = sched.run()
        res.update(self.observe(out, warm))
      finally:
        mh.HsmWithQueues.QUEUE_SIZE = old_qs
        left = sched.teardown()
        if left:
          res["leaked_threads"] = left
    return res

  def self_description(self):
    ao, sc = self.ao, self.script
    try:
      return [str(getattr(ao, "state_name", "")), sc.index_of(getattr(ao, "state_fn", None), ao), sc.index_of(getattr(ao.state, "fun", None), ao)]
    except Exception as ex:  # noqa
      return ["raised:" + type(ex).__name__, -3, -3]

  def poster(self, name, prog):
    for k, kind in enumerate(prog):
      e = self.script.new_event("A")
      self.sched.note("post", p=name, i=k + 1, kind=kind, id=e.payload)
      (self.ao.post_fifo if kind == "f" else self.ao.post_lifo)(e)
      self.sched.note("posted", p=name, i=k + 1, id=e.payload)

  def stopper(self):
    self.sched.note("stop")
    self.ao.stop()
    self.sched.note("stopped")

  def observe(self, outcome, warm):
    ao, sched = self.ao, self.sched
    dq = [shims.ident(x) for x in ao.locking_deque.deque.raw()]
    log = sched.log[warm:]
    ops = []
    last = ([], 0)
    for seq, th, op, obj, args, r in log:
      last = self.snaps.get(seq, last)
      if obj in ("dq", "tokens"):
        ops.append([th, op, obj, list(args), r if r is not None else "", list(last[0]), last[1]])
    import re as _re
    live = {"live": bool(self.cfg.get("live")), "toggle": bool(self.cfg.get("toggle")), "live_spy_calls": [], "live_trc": [], "calls": [], "disp_sigs": []}
    if live["live"]:
      # what the writer thread handed to the callbacks: the handler-call lines of the live spy (markers of posts made by other
      # threads are not lines "produced by a step") and the live trace records; and, independently, the calls the handlers saw
      live["live_spy_calls"] = [ln for ln in self.live_spy_lines if _re.match(r"^[A-Z_]+:s\d+(:HOOK)?$", ln)]
      live["live_trc"] = [chartgen.parse_trace_line(ln) for ln in self.live_trc_lines]
      live["calls"] = [[c[0], c[1], c[2]] for c in self.script.log if c[0] != "REFLECTION_SIGNAL"]
      live["disp_sigs"] = [c[0] for c in self.script.log if c[0] in ("A", "B", "C")]
    # the chart's description of itself (state_name, state_fn, current state) after start_at and at the end, and - from the handlers'
    # own call log - how many times A was answered with a transition
    names = {"on": bool(self.cfg.get("names")), "nested": bool(self.cfg.get("nested")), "toggle": bool(self.cfg.get("toggle")),
             "early": not hasattr(self, "after_start"), "after": getattr(self, "after_start", ["", -1, -1]), "final": self.self_description(),
             "a_disp": sum(1 for c in self.script.log if c[0] == "A" and c[2] == "TRAN")}
    return {"outcome": outcome, "dq": dq, "tokens": ao.locking_deque.locking_queue._size(), "dispatched": list(self.dispatched), "liveout": live,
            "names": names,
            "errors": sched.errors, "blocked": sched.blocked(), "steps": sched.steps, "ops": ops,
            "rtc_overlap": self.rtc_overlap, "stopped": bool(self.cfg.get("stop")),
            "schedule": [c[0] for c in sched.choices][getattr(self, "warm_choices", 0):],     # the choices after the warm-up: what --replay imposes
            "posters_done": all(vt.state == "done" for vt in sched.threads if vt.name in self.cfg["progs"])}

  # ---- spec -> code: impose a TLC behaviour of LockingDeque.tla -------------------------------
  SILENT_LABELS = {"p_loop", "a_next", "a_drop"}
  EXPECT = {"a_full": ("full", "tokens"), "a_put": ("put", "tokens"), "a_app": ("append*", "dq"), "a_rot": ("rotate", "dq"),
            "a_app2": ("append", "dq"), "a_c1": ("qsize", "tokens"), "a_c2": ("len", "dq"), "r_q": ("qsize", "tokens"),
            "r_l": ("len", "dq"), "r_put": ("put", "tokens"),
            "x_len": ("len", "dq"), "x_rot": ("rotate", "dq"), "x_app": ("append", "dq"), "x_appl": ("appendleft", "dq"),
            "y_put": ("put_nowait", "tokens"), "y_q": ("qsize", "tokens"), "y_l": ("len", "dq"),
            "c_get": ("get", "tokens"), "c_len": ("len", "dq"), "c_peek": ("getitem", "dq"), "n_len": ("len", "dq"),
            "n_pop": ("popleft", "dq")}

  def replay(self, steps):
    """steps: [(proc, label, state_after)] from TLC.  Each non-silent label is one shim op of that thread.
    cfg["lenient"]: use the behaviour only as a guide (keep going when the code does something else)."""
    sched, ao = self.sched, self.ao
    lenient = bool(self.cfg.get("lenient"))
    if lenient:
      return self.replay_lenient(steps)
    done = 0
    for proc, label, after in steps:
      if label in self.SILENT_LABELS:
        done += 1
        continue
      want = self.EXPECT.get(label)
      # run the thread through operations the model does not have (reads of the run flags)
      for _ in range(20):
        p = sched.pending_of(proc)
        if p is None:
          return {"ok": False, "at": done, "why": "no thread %s" % proc}
        if p[0] in ("is_set", "begin") or p[1] not in ("dq", "tokens"):
          if sched.step_thread(proc) is None:
            return {"ok": False, "at": done, "why": "thread %s cannot run its %s" % (proc, p[0]), "label": label}
          continue
        break
      p = sched.pending_of(proc)
      okop = want is not None and p[1] == want[1] and (p[0] == want[0] or (want[0] == "append*" and p[0] in ("append", "appendleft")))
      if not okop:
        return {"ok": False, "at": done, "why": "model label %s expects %s but thread %s is about to do %s on %s" % (label, want, proc, p[0], p[1])}
      if sched.step_thread(proc) is None:
        return {"ok": False, "at": done, "why": "thread %s blocked at %s (model says it can run %s)" % (proc, p[0], label)}
      if sched.errors:
        return {"ok": False, "at": done, "why": "exception %s" % (sched.errors[0][:2],)}
      dq = [shims.ident(x) for x in ao.locking_deque.deque.raw()]
      tok = ao.locking_deque.locking_queue._size()
      if after is not None:
        mdq = [self.id_of(x) for x in after["dq"]]
        if mdq != dq or after["tokens"] != tok:
          return {"ok": False, "at": done, "why": "state differs after %s/%s: code dq=%s tokens=%d, model dq=%s tokens=%d" % (
            proc, label, dq, tok, mdq, after["tokens"])}
      done += 1
    return {"ok": True, "at": done}

  def replay_lenient(self, steps):
    sched = self.sched
    followed = 0
    for st in steps:
      proc, label = st[0], st[1]
      if label in self.SILENT_LABELS:
        continue
      for _ in range(20):
        p = sched.pending_of(proc)
        if p is None or p[0] == "done":
          break
        sig = p[1] in ("dq", "tokens")
        if sched.step_thread(proc) is None:
          break
        if sched.errors:
          return {"ok": False, "followed": followed}
        if sig:
          followed += 1
          break
    return {"ok": True, "followed": followed}

  def id_of(self, item):
    """model item <<poster, i>> -> the event id the harness gave that post"""
    p, i = item
    return self.idmap().get((p, i), -1)

  def idmap(self):
    m = {}
    for th, op, obj, args, r in [(l[1], l[2], l[3], l[4], l[5]) for l in self.sched.log]:
      if op == "note:post":
        m[(args["p"], args["i"])] = args["id"]
    return m


def run_one(cfg, policy, max_steps=3000):
  return AORun(cfg, policy, max_steps).run()


AO_CFG = "SPECIFICATION TSpec\nCONSTANT Cap = %d\nINVARIANT Bounded\nINVARIANT AtMostOnce\nCHECK_DEADLOCK FALSE\n"


def validate(results, cap):
  """results: list of (tid, res) from run_one with the same cap -> verdicts tid -> {...}"""
  import os
  from . import tlc
  wd = common.work_dir()
  path = os.path.join(wd, "ao_%d_%d.ndjson" % (cap, id(results) % 10**8))
  with open(path, "w") as f:
    for tid, r in results:
      f.write(json.dumps({"tid": tid, "ops": r["ops"], "end": {
        "outcome": r["outcome"], "posters_done": r["posters_done"], "stopped": r["stopped"],
        "dispatched": r["dispatched"], "rtc_overlap": r["rtc_overlap"], "liveout": r.get("liveout", {"live": False, "toggle": False,
        "live_spy_calls": [], "live_trc": [], "calls": [], "disp_sigs": []}),
        "names": r.get("names", {"on": False, "nested": False, "toggle": False, "early": True, "after": ["", -1, -1], "final": ["", -1, -1], "a_disp": 0})}}) + "\n")
  t = tlc.run("AOTrace.tla", AO_CFG % cap, workers="auto", env={"TRACE_FILE": path}, timeout=1800)
  os.unlink(path)
  if t.violated:
    raise common.MachineryError("AO invariant %s violated during trace validation\n%s" % (t.violated, t.out[-2000:]))
  if not t.ok:
    raise common.MachineryError("TLC AOTrace failed: %s" % t.error)
  v = {}
  for p in t.printed:
    if isinstance(p, dict) and "tid" in p:
      v[p["tid"]] = p
  for tid, _ in results:
    if tid not in v:
      v[tid] = {"tid": tid, "stuck": True}
  return v, t
