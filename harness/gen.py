# Random chart tables and op sequences for Harness A (seeded; every choice comes from rng).
import random

SIGS = ["A", "B", "C"]

DEFAULT = dict(
  nmin=1, nmax=12, deep=0.75, p_init=0.4, sigs=3,
  w_none=45, w_unh=10, w_hook=15, w_tran=30,
  p_eff=0.25, hosts=(("queued", 8), ("instr", 1), ("plain", 1)), p_spied=0.85,
  caps=(2, 3, 4, 500), live=0.5, clocks=("fine", "fine", "const", "coarse"),
  nops=(4, 12), w_ops=dict(step=50, dispatch=8, post=10, defer=6, recall=6, is_in=6, child=4,
                           scribble=3, clear_spy=1, clear_trace=1, empty_rtc=3),
  p_bad_child=0.15, p_top_query=0.12, p_shared_names=0.15, p_bound=0.15, p_cs=0.1,
)


def profile(**kw):
  p = dict(DEFAULT)
  p.update(kw)
  return p


def gen_tree(rng, n, deep):
  par = [0]
  for i in range(2, n + 1):
    par.append(i - 1 if rng.random() < deep else rng.randrange(0, i))
  return par


def descendants(par, a):
  n = len(par)
  out = []
  for d in range(1, n + 1):
    x = par[d - 1]
    while x:
      if x == a:
        out.append(d)
        break
      x = par[x - 1]
  return out


def chart_companion_effects(rng, P):
  return rng.random() < P.get("p_companion", 0.3)


def gen_chart(rng, P):
  n = rng.randint(P["nmin"], P["nmax"])
  deep = P["deep"] if rng.random() < 0.8 else rng.random()
  par = gen_tree(rng, n, deep)
  sigs = SIGS[:P["sigs"]]
  init = []
  for i in range(1, n + 1):
    ds = descendants(par, i)
    init.append(rng.choice(ds) if ds and rng.random() < P["p_init"] else 0)
  kinds = ["none"] * P["w_none"] + ["unh"] * P["w_unh"] + ["hook"] * P["w_hook"] + ["tran"] * P["w_tran"] + ["null"] * P.get("w_null", 0)
  react = []
  for i in range(1, n + 1):
    row = []
    for _ in sigs:
      k = rng.choice(kinds)
      row.append([k, rng.randint(1, n) if k == "tran" else 0])
    react.append(row)
  host = rng.choices([h for h, _ in P["hosts"]], [w for _, w in P["hosts"]])[0]
  eff = []
  if host == "queued":
    for i in range(1, n + 1):
      for sg in ["ENTRY_SIGNAL", "EXIT_SIGNAL", "INIT_SIGNAL"] + sigs:
        if sg in sigs and react[i - 1][sigs.index(sg)][0] not in ("hook", "tran"):
          continue
        if rng.random() < P["p_eff"] / (1 + n / 4):
          lst = []
          for _ in range(rng.randint(1, 2)):
            k = rng.choice(["post_fifo", "post_lifo", "defer", "recall", "scribble"])
            if rng.random() < P["p_cs"]:
              k = "cs"
            elif rng.random() < P.get("p_other", 0.1):
              k = "other"
            if k in ("recall", "cs"):
              lst.append([k])
            elif k == "scribble":
              lst.append([k, rng.choice(["note", "x y", "hello:world"])])
            else:
              lst.append([k, rng.choice(sigs)])
          if rng.random() < P.get("p_fault", 0.0):
            lst.append(["raise"])          # fault injection: this handler fails after its other effects
          eff.append([i, sg, lst])
  if host != "queued" and chart_companion_effects(rng, P):
    for i in range(1, n + 1):
      for sg in ["ENTRY_SIGNAL", "EXIT_SIGNAL"] + sigs:
        if sg in sigs and react[i - 1][sigs.index(sg)][0] not in ("hook", "tran"):
          continue
        if rng.random() < 0.25 / (1 + n / 4):
          eff.append([i, sg, [["other", rng.choice(sigs)]]])
  st = lambda: [rng.choice("hf") for _ in range(n)]
  chart = {
    "n": n, "par": par, "init": init, "sigs": sigs, "react": react, "eff": eff, "bad": [], "build": "dyn", "reg": [],
    "xstyle": st(), "estyle": st(), "istyle": st(),
    "spied": rng.random() < P["p_spied"], "host": host,
    "cap": rng.choice(P["caps"]), "spy_ring": rng.choice([6, 10, 25, 500]), "trc_ring": rng.choice([2, 3, 5, 500]),
    "live_spy": rng.random() < P["live"], "live_trace": rng.random() < P["live"],
    "clock": rng.choice(P["clocks"]),
  }
  if chart["spied"] and host != "plain":
    # return_status.NULL as an answer is only used on un-instrumented charts (what the spy and the trace make of it is unspecified)
    for row in react:
      for cell in row:
        if cell[0] == "null":
          cell[0] = "hook"
  # state-function names: unique (s1, s2, ..) or shared by several states (closures, undecorated wrappers: all called `state`)
  r = rng.random()
  if r < P["p_shared_names"] / 2:
    chart["names"] = ["state"] * n
  elif r < P["p_shared_names"]:
    chart["names"] = [rng.choice(["state", "wrapper", "s%d" % (i + 1)]) for i in range(n)]
  else:
    chart["names"] = ["s%d" % (i + 1) for i in range(n)]
  # handlers as plain functions or as bound methods of a helper object
  chart["hstyle"] = "bound" if rng.random() < P["p_bound"] else "fn"
  # a second chart object of the same class lives next to this one (and some handlers dispatch into it)
  chart["companion"] = rng.random() < P.get("p_companion", 0.3)
  return chart


def circuit_safe(chart):
  """complete_circuit() is only asked of charts whose handlers cannot keep the queue non-empty for ever: every signal a handler
  posts is one that no state answers with a transition or with a handler that posts or recalls in turn"""
  posted = set()
  for st, sg, lst in chart["eff"]:
    for ef in lst:
      if ef[0] in ("post_fifo", "post_lifo"):
        posted.add(ef[1])
      if ef[0] in ("recall", "defer"):
        return False
  for sg in posted:
    k = chart["sigs"].index(sg)
    if any(row[k][0] == "tran" for row in chart["react"]):
      return False
    if any(st and s2 == sg for st, s2, lst in chart["eff"] for ef in lst if ef[0] in ("post_fifo", "post_lifo")):
      return False
  return True


def gen_ops(rng, chart, P):
  n, sigs, host = chart["n"], chart["sigs"], chart["host"]
  ops = [["start", rng.randint(1, n)]]
  w = dict(P["w_ops"])
  if host != "queued":
    for k in ("step", "post", "defer", "recall", "scribble", "clear_spy", "clear_trace", "empty_rtc", "circuit"):
      w[k] = 0
    w["dispatch"] = 60
  if chart.get("live_trace"):
    w["dispatch"] = 0     # live output is a feature of next_rtc-driven charts (DESIGN 6)
  if host == "queued" and rng.random() < P.get("p_prepost", 0.15):
    # events posted to (or deferred by) the chart before it is started: they wait in its queues; the start is recorded as usual
    pre = [[rng.choice(["post_fifo", "post_lifo", "defer"]), rng.choice(sigs)] for _ in range(rng.randint(1, 2))]
    ops = pre + ops
  names = [k for k in w if w[k] > 0]
  for _ in range(rng.randint(*P["nops"])):
    k = rng.choices(names, [w[x] for x in names])[0]
    if rng.random() < P.get("p_restart", 0.0) and not (chart["spied"] and host != "plain"):
      # start_at again on the running chart (un-instrumented charts only: what spy and trace record for a second start is unspecified)
      ops.append(["start", rng.randint(1, n)])
      continue
    if k == "step":
      ops.append([rng.choice(["post_fifo", "post_lifo"]), rng.choice(sigs)])
      ops.append(["next_rtc"])
    elif k == "dispatch":
      ops.append(["dispatch", rng.choice(sigs)])
    elif k == "post":
      ops.append([rng.choice(["post_fifo", "post_lifo"]), rng.choice(sigs)])
    elif k == "defer":
      ops.append(["defer", rng.choice(sigs)])
    elif k == "recall":
      ops.append(["recall"])
    elif k == "is_in":
      ops.append(["is_in", 0 if rng.random() < P["p_top_query"] else rng.randint(1, n)])     # 0: the query is about chart.top
    elif k == "child":
      if rng.random() < P["p_top_query"]:
        ops.append(["child_state", 0])
      else:
        ops.append(["child_state", rng.randint(1, n)] if rng.random() < P["p_bad_child"] else ["child_state", -1, rng.randrange(0, 12)])
    elif k == "scribble":
      ops.append(["scribble", rng.choice(["ext note", "z"])])
    elif k == "clear_spy":
      ops.append(["clear_spy"])
    elif k == "clear_trace":
      ops.append(["clear_trace"])
    elif k == "empty_rtc":
      ops.append(["next_rtc"])
    elif k == "circuit":
      # a few posts, then complete_circuit(): every step is recorded, and at its return the queue must be empty
      for _ in range(rng.randint(1, 4)):
        ops.append([rng.choice(["post_fifo", "post_lifo"]), rng.choice(sigs)])
      ops.append(["complete_circuit"] if circuit_safe(chart) else ["next_rtc"])
  return ops
