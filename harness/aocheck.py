# Batches of active-object executions under many schedules (random, PCT, preemption-bounded,
# guided by TLC counterexamples of the pre-fix model), validated by TLC against AO.tla.
import random, json, os, multiprocessing as mp
from . import common, dsched, aodrive, tlc

PROGS = [
  {"p1": ["f"], "p2": ["f"]},
  {"p1": ["f", "f"], "p2": ["f", "f"]},
  {"p1": ["f", "l"], "p2": ["l", "f"]},
  {"p1": ["f", "f", "f"], "p2": ["l"], "p3": ["f"]},
  {"p1": ["l", "l"], "p2": ["f", "f"], "p3": ["f", "l"]},
]
SELF = [{}, {}, {"A": [["post_fifo", "B"]]}, {"A": [["post_lifo", "C"]]}]


def make_cfg(rng, caps=(2, 3, 5, 8)):
  cfg = {"cap": rng.choice(caps), "progs": rng.choice(PROGS), "selfposts": rng.choice(SELF), "spied": rng.random() < 0.3}
  cfg["live"] = cfg["spied"] and rng.random() < 0.5
  return cfg


def make_policy(rng, kind, fair_after=400):
  if kind == "random":
    p = dsched.RandomPolicy(rng, stick=rng.choice([0.0, 0.3, 0.6, 0.8]))
  elif kind == "pct":
    p = dsched.PCTPolicy(rng, depth=rng.choice([2, 3, 4]), k=rng.choice([40, 80, 150]))
  else:
    raise ValueError(kind)
  # the fair suffix: plain round robin, or a weighted one (a thread may run several steps in a row)
  return dsched.FairSuffix(p, fair_after, rr=dsched.WeightedRR(rng) if rng.random() < 0.5 else None)


def _work(args):
  seed, lo, hi, kinds, caps, guided, force = args
  out = []
  for tid in range(lo, hi):
    rng = random.Random((seed << 22) ^ (tid * 2654435761 % (1 << 32)))
    cfg = make_cfg(rng, caps)
    if force == "c18":      # the same programs un-decorated, decorated, decorated with live output
      cfg["spied"], cfg["live"] = (tid % 3 != 0), (tid % 3 == 2)
      cfg["early"] = rng.random() < 0.4      # posts that race start_at (and the live output of the start)
      cfg["anon"] = rng.random() < 0.3       # an active object that was given no name
      cfg["wrapped"] = rng.random() < 0.3    # (un-decorated states only) the state functions carry a decorator of the user's own
    if force == "c21":      # decorated states, live spy and live trace on, a two-state chart that makes a trace record per A
      cfg["spied"], cfg["live"], cfg["toggle"] = True, True, True
      cfg["early"] = rng.random() < 0.3
    if force == "c23":      # what the object says about itself (state_name, state_fn): nested or two-state chart, named or anonymous object
      cfg["names"] = True
      cfg["spied"] = rng.random() < 0.7
      cfg["live"] = cfg["spied"] and rng.random() < 0.3
      cfg["nested"], cfg["toggle"] = [(True, False), (True, False), (False, True), (False, False)][tid % 4]
      cfg["anon"] = rng.random() < 0.5
      cfg["early"] = rng.random() < 0.2
    kind = kinds[tid % len(kinds)]
    if kind == "guided" and guided:
      g = guided[tid % len(guided)]
      cfg = {"cap": g["cap"], "progs": g["progs"], "selfposts": {}, "spied": False, "replay": g["steps"], "lenient": True}
      pol = dsched.RoundRobinPolicy()
    else:
      pol = make_policy(rng, kind if kind != "guided" else "random")
    r = aodrive.run_one(cfg, pol, 1500)
    r["cfg"], r["policy"] = cfg, kind
    out.append((tid, r))
  return out


def load_guided():
  p = os.path.join(common.VERIF, "spec", "schedules", "lockingdeque_asis.json")
  if os.path.exists(p):
    with open(p) as f:
      return json.load(f)
  return []


def run_batch(n, kinds=("random", "pct", "random", "guided"), caps=(2, 3, 5, 8), procs=16, force=None):
  seed = common.seed()
  guided = load_guided()
  chunk = max(1, (n + procs * 4 - 1) // (procs * 4))
  jobs = [(seed, lo, min(n, lo + chunk), kinds, caps, guided, force) for lo in range(0, n, chunk)]
  with mp.get_context("fork").Pool(procs) as pool:
    res = pool.map(_work, jobs)
  return [x for part in res for x in part]


CLAUSE_PROP = {"NameAfterStart": "C23", "NameAtRest": "C23", "LiveSpy": "C21", "LiveTrace": "C21", "LostWake": "C04", "Order": "C04", "Lost": "C04", "Twice": "C04", "DispatchNotPop": "C04", "RtcOverlap": "C04",
               "RotateNotFull": "C04", "Pop": "C04", "NoProgress": "C05", "PostBlocked": "C05", "Error": "C05",
               "PostBack": "C16", "PostFront": "C16", "Read": "C04"}


def validate_all(results):
  """group by cap, validate with TLC; returns (verdicts, states, transitions)"""
  verdicts, states, trans = {}, 0, 0
  caps = sorted({r["cfg"]["cap"] for _, r in results})
  for cap in caps:
    part = [(tid, r) for tid, r in results if r["cfg"]["cap"] == cap]
    v, t = aodrive.validate(part, cap)
    verdicts.update(v)
    states += t.distinct
    trans += t.generated
  return verdicts, states, trans


def file_violations(run, prop, results, verdicts):
  by = {tid: r for tid, r in results}
  others = {}
  for tid, v in verdicts.items():
    if v.get("stuck"):
      raise common.MachineryError("AO trace %s not consumed: %s" % (tid, json.dumps(by[tid]["ops"])[:800]))
    for c in v.get("bad", []):
      p = CLAUSE_PROP.get(c, "C04")
      r = by[tid]
      # a lost wake-up is both "queue not empty when no thread has work left" (C04) and "quiescence not reached" (C05)
      if p == prop or (prop == "C04" and c in ("PostBack", "PostFront")) or (prop == "C05" and c == "LostWake"):
        run.violation("%s" % c, "execution %d (%s, cap %d, %s) rejected: %s; outcome=%s dq=%s dispatched=%s" % (
          tid, r["policy"], r["cfg"]["cap"], json.dumps(r["cfg"]["progs"]), c, r["outcome"], r["dq"], r["dispatched"]),
          {"cfg": r["cfg"], "schedule": r["schedule"], "verdict": v, "outcome": r["outcome"], "errors": r["errors"][:1],
           "blocked": r["blocked"], "ops": r["ops"][-60:]})
      else:
        others[p] = others.get(p, 0) + 1
  return others
