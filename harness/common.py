# Shared plumbing for every check: paths, scratch dirs, evidence, verdict protocol.
import json, os, sys, time, shutil, hashlib, subprocess, atexit, threading

VERIF = os.path.dirname(os.path.dirname(os.path.abspath(__file__)))
REPO = os.environ.get("VERIF_REPO", "/repo")
SPEC = os.path.join(VERIF, "spec")
PY = "/venv/bin/python"

os.environ.setdefault("PYTHONDONTWRITEBYTECODE", "1")
os.environ.setdefault("PYTHONHASHSEED", "0")
sys.dont_write_bytecode = True
if REPO not in sys.path:
  sys.path.insert(0, REPO)

_work = None
_work_lock = threading.Lock()


def work_dir():
  """per-process scratch under /verif/.work, removed at exit.
  Checks call this from several threads at once (TLC runs in a thread pool next to the trace harness), so the
  directory is created before its name is published: a second caller must never see a path that does not exist yet.
  ./check calls it once before any thread or worker process is started; after that the lock-free fast path is all
  that runs (a lock held by another thread at fork time would otherwise be inherited locked by a worker)."""
  global _work
  w = _work
  if w is not None:
    return w
  with _work_lock:
    if _work is None:
      owner = os.getpid()
      d = os.path.join(VERIF, ".work", "w%d_%d" % (owner, int(time.time() * 1000) % 100000))
      os.makedirs(d, exist_ok=True)
      atexit.register(lambda: shutil.rmtree(d, ignore_errors=True) if os.getpid() == owner else None)
      _work = d
    return _work


def seed():
  try:
    return int(os.environ.get("VERIF_SEED", "0"))
  except ValueError:
    return 0


def repo_head():
  try:
    return subprocess.run(["git", "-C", REPO, "rev-parse", "--short", "HEAD"],
                          capture_output=True, text=True).stdout.strip()
  except Exception:
    return "?"


def load_findings():
  p = os.path.join(VERIF, "known_findings.json")
  if not os.path.exists(p):
    return []
  with open(p) as f:
    return json.load(f).get("findings", [])


class Violation:
  def __init__(self, prop, key, what, replay):
    self.prop, self.key, self.what, self.replay = prop, key, what, replay


class Run:
  """One check run: collects coverage, violations, writes evidence, exits."""

  def __init__(self, prop, tier, level):
    self.prop, self.tier, self.level = prop, tier, level
    self.t0 = time.time()
    self.cov = {}
    self.assumptions = []
    self.violations = []   # Violation
    self.known_hits = {}   # key -> what
    self.notes = []
    self._lock = threading.Lock()   # add() is called from the TLC thread pool and the harness thread
    self.findings = [f for f in load_findings() if f.get("property") == prop]
    shutil.rmtree(os.path.join(VERIF, "replays", prop), ignore_errors=True)

  def add(self, **kw):
    with self._lock:
      for k, v in kw.items():
        if isinstance(v, int) and not isinstance(v, bool) and isinstance(self.cov.get(k), int):
          self.cov[k] += v
        elif isinstance(v, list) and isinstance(self.cov.get(k), list):
          self.cov[k].extend(v)
        else:
          self.cov[k] = v

  def sample(self, s, cap=6):
    lst = self.cov.setdefault("samples", [])
    if len(lst) < cap:
      lst.append(s)

  def write_replay(self, payload):
    d = os.path.join(VERIF, "replays", self.prop)
    os.makedirs(d, exist_ok=True)
    txt = json.dumps(payload, sort_keys=True, default=str)
    h = hashlib.sha1(txt.encode()).hexdigest()[:12]
    p = os.path.join(d, h + ".json")
    with open(p, "w") as f:
      f.write(txt)
    return p

  def violation(self, key, what, payload):
    """key: structural signature of the failing case (matched against known_findings.json)."""
    for f in self.findings:
      if f.get("status") == "known" and f.get("key") == key:
        self.known_hits.setdefault(key, f.get("what", what))
        return
    if len(self.violations) < 20:
      payload = dict(payload)
      payload.update({"property": self.prop, "key": key, "what": what})
      self.violations.append(Violation(self.prop, key, what, self.write_replay(payload)))
    else:
      self.violations.append(Violation(self.prop, key, what, self.violations[0].replay))

  def finish(self):
    wall = time.time() - self.t0
    cov = dict(self.cov)
    cov.setdefault("samples", [])
    if not cov["samples"]:
      cov["samples"] = ["(no case explored)"]
    ev = {
      "property_id": self.prop, "tier": self.tier, "seed": seed(), "level": self.level,
      "coverage": cov, "assumptions": self.assumptions, "wall_s": round(wall, 2),
      "violations": len(self.violations),
    }
    if self.known_hits:
      ev["coverage"]["known_findings_hit"] = sorted(self.known_hits)
    if self.notes:
      ev["coverage"]["notes"] = self.notes
    ev["coverage"]["repo_head"] = repo_head()
    # runs against a CHANGED tree (tools/try_mutant_wt.sh) must not overwrite the evidence of the real tree
    evdir = os.path.join(VERIF, ".work", "evidence_of_changed_trees") if os.environ.get("VERIF_SCRATCH_EVIDENCE") else os.path.join(VERIF, "evidence")
    os.makedirs(evdir, exist_ok=True)
    with open(os.path.join(evdir, self.prop + ".json"), "w") as f:
      json.dump(ev, f, indent=1, sort_keys=True, default=str)
    for k, w in sorted(self.known_hits.items()):
      print("KNOWN-FINDING: property=%s %s [%s]" % (self.prop, w, k))
    seen = set()
    for v in self.violations:
      if v.replay in seen:
        continue
      seen.add(v.replay)
      print("VIOLATION property=%s replay=%s  # %s" % (v.prop, v.replay, v.what))
    print("%s %s tier=%s seed=%d wall=%.1fs %s" % (
      self.prop, "FAIL" if self.violations else "ok", self.tier, seed(), wall,
      json.dumps({k: v for k, v in cov.items() if isinstance(v, (int, bool))}, sort_keys=True)))
    sys.stdout.flush()
    return 1 if self.violations else 0


class MachineryError(Exception):
  pass
