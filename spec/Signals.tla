------------------------------- MODULE Signals -------------------------------
(* C25: the signal registry (event.py: SignalSource.append / attribute access / Event())      *)
(* under concurrent registration.  One label per dictionary operation.                         *)
(* Variant "asis": append tests membership, reads the length, then writes (check-then-act).    *)
(* Variant "locked": the three steps hold a lock.                                              *)
EXTENDS Naturals, Sequences, FiniteSets, TLC
CONSTANTS Threads, Prog, Variant, Builtins
(* Prog[t] = sequence of names to register *)
Locked == Variant = "locked"
(* --algorithm Signals {
variables reg = [n \in {} |-> 0],          \* name -> number (the built-ins are numbers 1..Builtins, not modelled by name)
          size = Builtins, lock = "free",
          seen = {};                        \* every <<name, number>> binding any thread has ever observed
process (th \in Threads)
variables i = 1, present = FALSE, ln = 0;
{
 a_loop: while (i <= Len(Prog[self])) {
   a_lock: if (Locked) { await lock = "free"; lock := self };
   a_in:   present := Prog[self][i] \in DOMAIN reg;                     \* if string in self
           if (~present) {
   a_len:    ln := size;                                                \* len(self) + 1
   a_set:    if (Prog[self][i] \notin DOMAIN reg) { size := size + 1 };
             reg := [n \in DOMAIN reg \cup {Prog[self][i]} |-> IF n = Prog[self][i] THEN ln + 1 ELSE reg[n]];   \* self[string] = ...
           };
   a_rel:  if (Locked) { lock := "free" };
   a_use:  seen := seen \cup {<<Prog[self][i], reg[Prog[self][i]]>>};   \* value = self[str(item)]
           i := i + 1;
 }
}
} *)
\* BEGIN TRANSLATION
VARIABLES pc, reg, size, lock, seen, i, present, ln

vars == << pc, reg, size, lock, seen, i, present, ln >>

ProcSet == (Threads)

Init == (* Global variables *)
        /\ reg = [n \in {} |-> 0]
        /\ size = Builtins
        /\ lock = "free"
        /\ seen = {}
        (* Process th *)
        /\ i = [self \in Threads |-> 1]
        /\ present = [self \in Threads |-> FALSE]
        /\ ln = [self \in Threads |-> 0]
        /\ pc = [self \in ProcSet |-> "a_loop"]

a_loop(self) == /\ pc[self] = "a_loop"
                /\ IF i[self] <= Len(Prog[self])
                      THEN /\ pc' = [pc EXCEPT ![self] = "a_lock"]
                      ELSE /\ pc' = [pc EXCEPT ![self] = "Done"]
                /\ UNCHANGED << reg, size, lock, seen, i, present, ln >>

a_lock(self) == /\ pc[self] = "a_lock"
                /\ IF Locked
                      THEN /\ lock = "free"
                           /\ lock' = self
                      ELSE /\ TRUE
                           /\ lock' = lock
                /\ pc' = [pc EXCEPT ![self] = "a_in"]
                /\ UNCHANGED << reg, size, seen, i, present, ln >>

a_in(self) == /\ pc[self] = "a_in"
              /\ present' = [present EXCEPT ![self] = Prog[self][i[self]] \in DOMAIN reg]
              /\ IF ~present'[self]
                    THEN /\ pc' = [pc EXCEPT ![self] = "a_len"]
                    ELSE /\ pc' = [pc EXCEPT ![self] = "a_rel"]
              /\ UNCHANGED << reg, size, lock, seen, i, ln >>

a_len(self) == /\ pc[self] = "a_len"
               /\ ln' = [ln EXCEPT ![self] = size]
               /\ pc' = [pc EXCEPT ![self] = "a_set"]
               /\ UNCHANGED << reg, size, lock, seen, i, present >>

a_set(self) == /\ pc[self] = "a_set"
               /\ IF Prog[self][i[self]] \notin DOMAIN reg
                     THEN /\ size' = size + 1
                     ELSE /\ TRUE
                          /\ size' = size
               /\ reg' = [n \in DOMAIN reg \cup {Prog[self][i[self]]} |-> IF n = Prog[self][i[self]] THEN ln[self] + 1 ELSE reg[n]]
               /\ pc' = [pc EXCEPT ![self] = "a_rel"]
               /\ UNCHANGED << lock, seen, i, present, ln >>

a_rel(self) == /\ pc[self] = "a_rel"
               /\ IF Locked
                     THEN /\ lock' = "free"
                     ELSE /\ TRUE
                          /\ lock' = lock
               /\ pc' = [pc EXCEPT ![self] = "a_use"]
               /\ UNCHANGED << reg, size, seen, i, present, ln >>

a_use(self) == /\ pc[self] = "a_use"
               /\ seen' = (seen \cup {<<Prog[self][i[self]], reg[Prog[self][i[self]]]>>})
               /\ i' = [i EXCEPT ![self] = i[self] + 1]
               /\ pc' = [pc EXCEPT ![self] = "a_loop"]
               /\ UNCHANGED << reg, size, lock, present, ln >>

th(self) == a_loop(self) \/ a_lock(self) \/ a_in(self) \/ a_len(self)
               \/ a_set(self) \/ a_rel(self) \/ a_use(self)

(* Allow infinite stuttering to prevent deadlock on termination. *)
Terminating == /\ \A self \in ProcSet: pc[self] = "Done"
               /\ UNCHANGED vars

Next == (\E self \in Threads: th(self))
           \/ Terminating

Spec == Init /\ [][Next]_vars

Termination == <>(\A self \in ProcSet: pc[self] = "Done")

\* END TRANSLATION
Injective == \A a, b \in DOMAIN reg : a # b => reg[a] # reg[b]
Positive  == \A a \in DOMAIN reg : reg[a] > Builtins
Stable    == \A p, r \in seen : p[1] = r[1] => p[2] = r[2]          \* a name never changes its number
ProgDef == [t \in Threads |-> IF t = "t1" THEN <<"X", "Y">> ELSE <<"Y", "Z">>]
SeenInjective == \A p, r \in seen : p[2] = r[2] => p[1] = r[1]
=============================================================================
