------------------------------- MODULE System -------------------------------
(* The whole system at the level of the active objects' pending-event queues (C04 end to end,   *)
(* C09, C12, C14, C16 for active objects): SEVERAL active objects, each an atomic bounded deque  *)
(* (AO.tla lifted to a family), and everything that puts events into them - post_fifo/post_lifo   *)
(* from any thread or handler, the two delivery threads of the fabric, the timer threads of timed *)
(* sources, stop()'s wake-up item - plus each object's own thread, which takes the FRONT event    *)
(* and dispatches it, one run-to-completion step at a time, until the object is stopped.          *)
(*                                                                                                *)
(* Items are strings: "e<id>" for an event the harness numbered, "s:<SIGNAL>" for one it could    *)
(* not (timer events, meta events, the stop item).  `by` names who makes an append: "api" (a      *)
(* driver thread), "handler" (the object's own thread, from a handler), "fab_fifo" / "fab_lifo"   *)
(* (the delivery threads), "timer" (a timed source), "stop" (stop()'s wake-up item).              *)
(*                                                                                                *)
(* SystemMC.tla model-checks the design on a small instance; SystemTrace.tla validates recorded   *)
(* executions of the real system (harness/sysdrive.py) against exactly these actions.             *)
EXTENDS Naturals, Sequences, FiniteSets, TLC
CONSTANT Cap

VARIABLES
  st,        \* [ao -> "new" | "running" | "stopcalled" | "stopped"]
  q,         \* [ao -> pending items, front first]
  applied,   \* [ao -> history of appends since the last clear: <<"f"|"l", item>>]
  popped,    \* [ao -> history of items taken by the object's thread since the last clear]
  taken,     \* [ao -> item taken and not yet dispatched, or ""]
  hist,      \* [ao -> items dispatched, in order]
  everFull   \* [ao -> the queue has been at capacity (overflow regime of C04)]
svars == <<st, q, applied, popped, taken, hist, everFull>>

SInit(A) ==
  /\ st = [a \in A |-> "new"] /\ q = [a \in A |-> <<>>] /\ applied = [a \in A |-> <<>>] /\ popped = [a \in A |-> <<>>]
  /\ taken = [a \in A |-> ""] /\ hist = [a \in A |-> <<>>] /\ everFull = [a \in A |-> FALSE]

Full(s) == Len(s) >= Cap
RemoveAt(s, i) == SubSeq(s, 1, i - 1) \o SubSeq(s, i + 1, Len(s))
Numbered(item) == Len(item) >= 1 /\ SubSeq(item, 1, 1) = "e"

(* a post never blocks and keeps the NEW event; a full queue gives up one older event (C16) *)
BackOK(a, item, nq) ==
  /\ Len(nq) >= 1 /\ nq[Len(nq)] = item /\ Len(nq) <= Cap
  /\ IF Full(q[a]) THEN \E i \in 1..Len(q[a]) : nq = Append(RemoveAt(q[a], i), item) ELSE nq = Append(q[a], item)
FrontOK(a, item, nq) ==
  /\ Len(nq) >= 1 /\ nq[1] = item /\ Len(nq) <= Cap
  /\ IF Full(q[a]) THEN \E i \in 1..Len(q[a]) : nq = <<item>> \o RemoveAt(q[a], i) ELSE nq = <<item>> \o q[a]

(* which end of the queue a producer must use (C04, C09, C10): fifo -> back, lifo -> front *)
EndOK(kind, end) == (kind = "fifo" /\ end = "f") \/ (kind = "lifo" /\ end = "l")

Put(a, end, item, nq) ==
  /\ IF end = "f" THEN BackOK(a, item, nq) ELSE FrontOK(a, item, nq)
  /\ q' = [q EXCEPT ![a] = nq]
  /\ applied' = [applied EXCEPT ![a] = Append(@, <<end, item>>)]
  /\ everFull' = [everFull EXCEPT ![a] = @ \/ Full(q[a]) \/ Full(nq)]
  /\ UNCHANGED <<st, popped, taken, hist>>

(* making room may reorder the queue only in the overflow regime *)
RotateOK(a, nq) == (everFull[a] \/ nq = q[a]) /\ Len(nq) = Len(q[a])
Rotate(a, nq) == RotateOK(a, nq) /\ q' = [q EXCEPT ![a] = nq] /\ UNCHANGED <<st, applied, popped, taken, hist, everFull>>

(* clear(): legitimate on an empty queue only - clearing pending events of an object loses posted events (C04) *)
ClearOK(a) == q[a] = <<>>
Clear(a) == q' = [q EXCEPT ![a] = <<>>] /\ UNCHANGED <<st, applied, popped, taken, hist, everFull>>

(* the object's own thread takes the front item ... *)
TakeOK(a, item) == st[a] \in {"running", "stopcalled"} /\ q[a] # <<>> /\ Head(q[a]) = item /\ taken[a] = ""
Take(a, item) ==
  /\ TakeOK(a, item)
  /\ q' = [q EXCEPT ![a] = Tail(@)] /\ popped' = [popped EXCEPT ![a] = Append(@, item)] /\ taken' = [taken EXCEPT ![a] = item]
  /\ UNCHANGED <<st, applied, hist, everFull>>
(* ... and dispatches exactly that item to the chart, before it takes the next one (run to completion) *)
DispatchOK(a, item) == taken[a] = item /\ item # "" /\ st[a] # "stopped"
Dispatch(a, item) ==
  /\ DispatchOK(a, item)
  /\ hist' = [hist EXCEPT ![a] = Append(@, item)] /\ taken' = [taken EXCEPT ![a] = ""]
  /\ UNCHANGED <<st, q, applied, popped, everFull>>

(* an event the processor consumes itself (subscribe / publish meta events handled in `top`): taken and done in one step *)
TakeSilent(a, item) ==
  /\ TakeOK(a, item)
  /\ q' = [q EXCEPT ![a] = Tail(@)] /\ popped' = [popped EXCEPT ![a] = Append(@, item)] /\ hist' = [hist EXCEPT ![a] = Append(@, item)]
  /\ UNCHANGED <<st, applied, taken, everFull>>

Start(a) == st[a] = "new" /\ st' = [st EXCEPT ![a] = "running"] /\ UNCHANGED <<q, applied, popped, taken, hist, everFull>>
StopCall(a) == st' = [st EXCEPT ![a] = IF @ = "stopped" THEN @ ELSE "stopcalled"] /\ UNCHANGED <<q, applied, popped, taken, hist, everFull>>
(* stop() returns only when the object's thread has ended: no step is under way and none will follow (C12) *)
StopRet(a) == st' = [st EXCEPT ![a] = "stopped"] /\ UNCHANGED <<q, applied, popped, taken, hist, everFull>>

----------------------------------------------------------------------------
RECURSIVE Ideal(_, _)
Ideal(ops, acc) == IF ops = <<>> THEN acc
                   ELSE IF Head(ops)[1] = "f" THEN Ideal(Tail(ops), Append(acc, Head(ops)[2]))
                   ELSE Ideal(Tail(ops), <<Head(ops)[2]>> \o acc)
(* remove the first occurrence of each popped item, in pop order (items need not be distinct: timer events) *)
RECURSIVE DropFirst(_, _)
DropFirst(s, x) == IF s = <<>> THEN <<>> ELSE IF Head(s) = x THEN Tail(s) ELSE <<Head(s)>> \o DropFirst(Tail(s), x)
RECURSIVE Minus(_, _)
Minus(s, ps) == IF ps = <<>> THEN s ELSE Minus(DropFirst(s, Head(ps)), Tail(ps))
Objs == DOMAIN st

Bounded    == \A a \in Objs : Len(q[a]) <= Cap                                                          \* C16
(* outside the overflow regime the queue is exactly what an atomic deque driven by the same appends and pops holds (C04).   *)
(* (Stated for histories whose items are all different: with two copies of one item - an object subscribed with both kinds - *)
(* the two histories do not say which copy was taken; there the order is enforced step by step by BackOK/FrontOK/TakeOK.)    *)
AllDifferent(a) == \A i, j \in 1..Len(applied[a]) : i # j => applied[a][i][2] # applied[a][j][2]
InOrder    == \A a \in Objs : (~everFull[a] /\ AllDifferent(a)) => q[a] = Minus(Ideal(applied[a], <<>>), popped[a])
(* the chart sees the items in the order the thread took them (C04) ... *)
DispatchIsPop == \A a \in Objs : hist[a] \o (IF taken[a] = "" THEN <<>> ELSE <<taken[a]>>) = popped[a]
(* ... and no more often than it was put into the queue (an object subscribed with both kinds is handed a publication twice) *)
Times(s, x) == Cardinality({i \in 1..Len(s) : s[i] = x})
AtMostOnce == \A a \in Objs : \A i \in 1..Len(hist[a]) :
                Times(hist[a], hist[a][i]) <= Cardinality({k \in 1..Len(applied[a]) : applied[a][k][2] = hist[a][i]})
(* nothing is dispatched by an object that was never started, and nothing after stop() returned (C12) *)
QuietUnlessRunning == \A a \in Objs : st[a] = "new" => hist[a] = <<>>
NoStepAfterStop == [][\A a \in Objs : st[a] = "stopped" => (hist'[a] = hist[a] /\ popped'[a] = popped[a])]_svars
=============================================================================
