------------------------------- MODULE Tree -------------------------------
(* Finite rooted trees of states.  A tree over states 1..N is a sequence par with      *)
(* par[i] \in 0..i-1; 0 stands for miros' `top`.  Everything a statechart transition   *)
(* needs (ancestor chains, least common ancestor as the property C01 words it, exit    *)
(* and entry paths) is defined here from the tree alone, independently of Samek's      *)
(* topology search in hsm.py.                                                          *)
EXTENDS Naturals, Sequences, FiniteSets

Rev(s)    == [i \in 1..Len(s) |-> s[Len(s) + 1 - i]]
SeqSet(s) == {s[i] : i \in 1..Len(s)}
MinOf(S)  == CHOOSE x \in S : \A y \in S : x <= y

RECURSIVE Up(_, _)
Up(par, s) == IF s = 0 THEN <<>> ELSE <<s>> \o Up(par, par[s])   \* s, parent(s), .. (top excluded)
Path(par, s) == Rev(Up(par, s))                                    \* outermost .. s

Encl(par, a, b) == a = 0 \/ a \in SeqSet(Up(par, b))   \* a is b, or encloses b (top encloses all)
PDesc(par, a)   == {d \in 1..Len(par) : d # a /\ Encl(par, a, d)}   \* proper descendants

RECURSIVE Before(_, _)      \* the prefix of s before the first x (all of s when x is absent)
Before(s, x) == IF s = <<>> \/ Head(s) = x THEN <<>> ELSE <<Head(s)>> \o Before(Tail(s), x)

(* L of property C01: the innermost state that is S or T or encloses both; a self-     *)
(* transition exits and re-enters S, so its L is S's parent.                           *)
LCA(par, S, T) ==
  IF S = T THEN par[S]
  ELSE IF Encl(par, S, T) THEN S
  ELSE IF Encl(par, T, S) THEN T
  ELSE LET ups == Up(par, par[S])
           c   == {i \in 1..Len(ups) : Encl(par, ups[i], T)}
       IN IF c = {} THEN 0 ELSE ups[MinOf(c)]

ExitStates(par, cur, L) == Before(Up(par, cur), L)         \* innermost first
EntryStates(par, T, L)  == Rev(Before(Up(par, T), L))      \* outermost first

(* all labelled trees (par[i] < i) with exactly n states and at most b nodes that do  *)
(* not hang under their predecessor: b >= n-1 gives all (n-1)! .. trees, small b gives *)
(* deep "spines" (b = 0: the single chain)                                            *)
RECURSIVE TreesN(_, _)
TreesN(n, b) ==
  IF n = 0 THEN {<<>>}
  ELSE {Append(t, n - 1) : t \in TreesN(n - 1, b)}
       \cup (IF b > 0 /\ n >= 2 THEN {Append(t, p) : t \in TreesN(n - 1, b - 1), p \in 0..(n - 2)} ELSE {})
=============================================================================
