------------------------------- MODULE TSAProof -------------------------------
(* C27 / C28 for ANY number of threads and ANY programs of reads, assignments and augmented assignments: a machine-checked (TLAPS) *)
(* proof that under the repaired descriptor protocol of TSA.tla (the descriptor remembers WHICH thread is inside an augmented      *)
(* assignment) no thread ever releases a lock it does not own, and when every thread is done the lock is free.                      *)
EXTENDS TSAInv, TLAPS

THEOREM InitInv == Init => Inv
  BY FixedVariant, NoneNotAThread DEF Init, Inv, Labels, Kind, InAug, Holds, ProcSet, None

THEOREM NextInv == Inv /\ [Next]_vars => Inv'
<1> SUFFICES ASSUME Inv, [Next]_vars PROVE Inv'
  OBVIOUS
<1> USE FixedVariant, NoneNotAThread DEF Labels, Kind, InAug, Holds, ProcSet, None
<1>1. ASSUME NEW self \in Threads, loop(self) PROVE Inv'
  BY <1>1 DEF Inv, loop
<1>2. ASSUME NEW self \in Threads, s0(self) PROVE Inv'
  BY <1>2 DEF Inv, s0
<1>3. ASSUME NEW self \in Threads, s_flag(self) PROVE Inv'
  BY <1>3 DEF Inv, s_flag
<1>4. ASSUME NEW self \in Threads, s_acq(self) PROVE Inv'
  BY <1>4 DEF Inv, s_acq
<1>5. ASSUME NEW self \in Threads, s_val(self) PROVE Inv'
  BY <1>5 DEF Inv, s_val
<1>6. ASSUME NEW self \in Threads, s_at(self) PROVE Inv'
  BY <1>6 DEF Inv, s_at
<1>7. ASSUME NEW self \in Threads, s_rel(self) PROVE Inv'
  BY <1>7 DEF Inv, s_rel
<1>8. ASSUME NEW self \in Threads, nxt(self) PROVE Inv'
  BY <1>8 DEF Inv, nxt
<1>9. ASSUME NEW self \in Threads, g_acq(self) PROVE Inv'
  BY <1>9 DEF Inv, g_acq
<1>10. ASSUME NEW self \in Threads, g_at(self) PROVE Inv'
  BY <1>10 DEF Inv, g_at
<1>11. ASSUME NEW self \in Threads, g_cls(self) PROVE Inv'
  BY <1>11 DEF Inv, g_cls
<1>12. ASSUME NEW self \in Threads, g_ret(self) PROVE Inv'
  BY <1>12 DEF Inv, g_ret
<1>13. CASE Terminating
  BY <1>13 DEF Inv, Terminating, vars
<1>14. CASE UNCHANGED vars
  BY <1>14 DEF Inv, vars
<1> QED
  BY <1>1, <1>2, <1>3, <1>4, <1>5, <1>6, <1>7, <1>8, <1>9, <1>10, <1>11, <1>12, <1>13, <1>14 DEF Next, th

THEOREM Safety == Spec => [](NoErr /\ LockFree)
<1>1. Inv => NoErr /\ LockFree
  BY DEF Inv, NoErr, LockFree, AllDone, Holds, InAug, Kind, Labels
<1> QED
  BY InitInv, NextInv, <1>1, PTL DEF Spec
=============================================================================
