----------------------------- MODULE PubSubTrace -----------------------------
(* C07 / C09: active objects publishing and subscribing through the fabric, in every          *)
(* configuration (decorated or not, subscription before or after start_at, from its own        *)
(* handler or another thread, whoever else subscribed).  Recorded executions of the real       *)
(* system (harness/sysdrive.py) are validated event by event; verdicts are total.              *)
(*                                                                                            *)
(* "Later publications": a subscription is in effect for every publish call made after the     *)
(* system has SETTLED (no thread runnable) following the return of subscribe() and of the       *)
(* subscriber's start_at().  Publications racing with the subscription may or may not arrive    *)
(* (at most once).                                                                             *)
EXTENDS Naturals, Sequences, FiniteSets, TLC, Json, IOUtils, TLCExt
All == ndJsonDeserialize(IOEnv.TRACE_FILE)
VARIABLES tid, l, bad,
          started,    \* AOs whose start_at returned
          subret,     \* {<<ao, sig, kind>>}: subscribe() returned
          subcall,    \* {<<ao, sig, kind>>}: subscribe() was called
          ineffect,   \* {<<ao, sig, kind>>}: in effect (settled after subret and start)
          pubs,       \* {<<id, sig, ao>>}: publish calls made
          putk,       \* {<<id, kind>>}: events that reached the fabric queue of that kind
          owed,       \* {<<id, ao, kind>>}
          deliv,      \* {<<id, ao, kind>>}: appended to the AO's queue by the delivery thread of that kind
          ndisp,      \* [<<ao, id>>] -> number of dispatches, as a set of <<ao, id, n>>
          stopcalled  \* active objects whose stop() has been called: nothing is owed to them any more, the OTHERS are owed as before
vars == <<tid, l, bad, started, subret, subcall, ineffect, pubs, putk, owed, deliv, ndisp, stopcalled>>
T == All[tid]
E == T.ev[l]
Chk(ok, name) == IF ok THEN {} ELSE {name}
KindOfThread(th) == IF Len(th) >= 8 /\ SubSeq(th, 1, 8) = "fab_fifo" THEN "fifo"
                    ELSE IF Len(th) >= 8 /\ SubSeq(th, 1, 8) = "fab_lifo" THEN "lifo" ELSE "none"
Count(ao, id) == LET S == {x \in ndisp : x[1] = ao /\ x[2] = id} IN IF S = {} THEN 0 ELSE (CHOOSE x \in S : TRUE)[3]

TInit == /\ tid \in DOMAIN All /\ l = 1 /\ bad = {} /\ started = {} /\ subret = {} /\ subcall = {} /\ ineffect = {}
         /\ pubs = {} /\ putk = {} /\ owed = {} /\ deliv = {} /\ ndisp = {} /\ stopcalled = {}

Same == UNCHANGED <<started, subret, subcall, ineffect, pubs, putk, owed, deliv, ndisp>>
Step ==
  CASE E[1] = "ret" /\ E[2] = "start" -> started' = started \cup {E[3]} /\ bad' = {}
         /\ UNCHANGED <<subret, subcall, ineffect, pubs, putk, owed, deliv, ndisp>>
    [] E[1] = "call" /\ E[2] = "sub" -> subcall' = subcall \cup {<<E[3], E[4], IF E[5] = "default" THEN "fifo" ELSE E[5]>>} /\ bad' = {}
         /\ UNCHANGED <<started, subret, ineffect, pubs, putk, owed, deliv, ndisp>>
    [] E[1] = "ret" /\ E[2] = "sub" -> subret' = subret \cup {<<E[3], E[4], E[5]>>} /\ bad' = {}
         /\ UNCHANGED <<started, subcall, ineffect, pubs, putk, owed, deliv, ndisp>>
    [] E[1] = "settle" -> ineffect' = ineffect \cup {s \in subret : s[1] \in started} /\ bad' = {}
         /\ UNCHANGED <<started, subret, subcall, pubs, putk, owed, deliv, ndisp>>
    [] E[1] = "call" /\ E[2] = "pub" ->
         /\ pubs' = pubs \cup {<<E[5], E[4], E[3]>>}
         /\ owed' = owed \cup {<<E[5], s[1], s[3]>> : s \in {x \in ineffect : x[2] = E[4] /\ x[1] \notin stopcalled}}
         /\ bad' = {} /\ UNCHANGED <<started, subret, subcall, ineffect, putk, deliv, ndisp>>
    [] E[1] = "put" -> putk' = putk \cup {<<E[3], E[2]>>} /\ bad' = {}
         /\ UNCHANGED <<started, subret, subcall, ineffect, pubs, owed, deliv, ndisp>>
    [] E[1] = "qapp" ->
         LET k == KindOfThread(E[6]) IN
         IF k = "none" \/ E[3] = 0 THEN bad' = {} /\ Same
         ELSE /\ deliv' = deliv \cup {<<E[3], E[2], k>>}
              /\ bad' = Chk(<<E[3], E[2], k>> \notin deliv, "DeliveredTwice")
                   \cup Chk(\E s \in subcall : s[1] = E[2] /\ s[3] = k /\ \E p \in pubs : p[1] = E[3] /\ p[2] = s[2], "NotSubscribed")
                   \cup Chk(LET sg == (CHOOSE p \in pubs : p[1] = E[3])[2]
                                 kinds == {s[3] : s \in {x \in subcall : x[1] = E[2] /\ x[2] = sg}}
                             IN \/ ~(\E p \in pubs : p[1] = E[3])
                                \/ /\ ("lifo" \in kinds /\ (k = "lifo" \/ "fifo" \notin kinds)) => (E[7] # <<>> /\ E[7][1] = E[3])  \* front of the queue
                                   /\ ("fifo" \in kinds /\ (k = "fifo" \/ "lifo" \notin kinds)) => (E[7] # <<>> /\ E[7][Len(E[7])] = E[3]), "WrongEnd")   \* back (C09); an empty queue holds it at neither end
              /\ UNCHANGED <<started, subret, subcall, ineffect, pubs, putk, owed, ndisp>>
    [] E[1] = "disp" ->
         IF E[4] = 0 THEN bad' = {} /\ Same
         ELSE /\ ndisp' = {x \in ndisp : ~(x[1] = E[2] /\ x[2] = E[4])} \cup {<<E[2], E[4], Count(E[2], E[4]) + 1>>}
              /\ bad' = {} /\ UNCHANGED <<started, subret, subcall, ineffect, pubs, putk, owed, deliv>>
    [] OTHER -> bad' = {} /\ Same

Quiet == T.end.outcome = "quiescent" /\ T.end.drivers_done
(* what is still owed at the end: not to an object that was stopped, and not for a publication whose PUBLISHER was stopped (its *)
(* publish request may have been waiting in its own queue when it stopped)                                                    *)
PublisherOf(id) == LET S == {p \in pubs : p[1] = id} IN IF S = {} THEN "" ELSE (CHOOSE p \in S : TRUE)[3]
OwedLive == {o \in owed : o[2] \notin stopcalled /\ PublisherOf(o[1]) \notin stopcalled}
Final ==
       Chk(T.end.outcome # "bound", "NoProgress") \cup Chk(T.end.outcome # "error", "Error")
  \cup Chk(T.end.outcome # "quiescent" \/ T.end.drivers_done, "Hang")
  \cup Chk(~Quiet \/ \A p \in pubs : (p[3] \in started /\ p[3] \notin stopcalled) => (<<p[1], "fifo">> \in putk /\ <<p[1], "lifo">> \in putk), "PublishLost")
  \cup Chk(~Quiet \/ OwedLive \subseteq deliv, "Missing")
  \cup Chk(~Quiet \/ \A d \in deliv : d[2] \in stopcalled \/ Count(d[2], d[1]) = Cardinality({x \in deliv : x[1] = d[1] /\ x[2] = d[2]}), "DispatchCount")

TNext ==
  /\ bad = {} /\ l <= Len(T.ev) + 1 /\ tid' = tid /\ l' = l + 1
  /\ IF l <= Len(T.ev) THEN Step ELSE bad' = Final /\ Same
  /\ stopcalled' = IF l <= Len(T.ev) /\ E[1] = "call" /\ E[2] = "stop" THEN stopcalled \cup {E[3]} ELSE stopcalled
  /\ IF bad' # {} THEN PrintT(ToJson([tid |-> T.tid, at |-> l, bad |-> bad', missing |-> OwedLive \ deliv]))
     ELSE IF l = Len(T.ev) + 1 THEN PrintT(ToJson([tid |-> T.tid, done |-> l, owed |-> Cardinality(owed)])) ELSE TRUE
TSpec == TInit /\ [][TNext]_vars
=============================================================================
