------------------------------- MODULE AOTrace -------------------------------
(* Validates recorded executions of the real ActiveObject/LockingDeque (one per line of      *)
(* TRACE_FILE: {"tid", "cap", "ops":[[thread, op, obj, args, result, dq_after, tokens_after]],*)
(* "end": {...}}) against AO.tla.  Verdicts are total and name the failing clause.           *)
EXTENDS AO, Json, IOUtils, TLCExt
All == ndJsonDeserialize(IOEnv.TRACE_FILE)
VARIABLES tid, l, bad
tv == <<avars, tid, l, bad>>
T  == All[tid]
E  == T.ops[l]
Op == E[2]
After == E[6]
TInit == tid \in DOMAIN All /\ l = 1 /\ bad = {} /\ AInit

Step ==
  IF E[3] = "dq" THEN
    CASE Op = "append"     -> IF PostBackOK(E[4][1], After) THEN PostBack(E[4][1], After) /\ bad' = {}
                              ELSE bad' = {"PostBack"} /\ UNCHANGED avars
      [] Op = "appendleft" -> IF PostFrontOK(E[4][1], After) THEN PostFront(E[4][1], After) /\ bad' = {}
                              ELSE bad' = {"PostFront"} /\ UNCHANGED avars
      [] Op = "popleft"    -> IF PopOK(E[5]) /\ Tail(dq) = After THEN Pop(E[5]) /\ bad' = {}
                              ELSE bad' = {"Pop"} /\ UNCHANGED avars
      [] Op = "rotate"     -> IF RotateOK(After) THEN Rotate(After) /\ bad' = {}
                              ELSE bad' = {"RotateNotFull"} /\ UNCHANGED avars
      [] Op = "clear"      -> Clear /\ bad' = {}
      [] OTHER             -> bad' = (IF After = dq THEN {} ELSE {"Read"}) /\ UNCHANGED avars
  ELSE IF E[3] = "tokens" THEN Token(E[7]) /\ bad' = {}
  ELSE bad' = {} /\ UNCHANGED avars

(* verdict at the end of the execution *)
End == T.end
(* C21 for the active-object host: with live spy / live trace on, the writer thread hands every handler-call line of the spy *)
(* and every trace record to the registered callbacks exactly once and in production order.  Expected from the handlers' own *)
(* call log: "SIG:state", followed by "SIG:state:HOOK" when a chart signal was handled internally; and (two-state toggle     *)
(* chart) one trace record for the start and one per dispatched A.                                                            *)
L == End.liveout
CallLine(c) == c[1] \o ":s" \o ToString(c[2])
RECURSIVE ExpSpy(_)
ExpSpy(cs) == IF cs = <<>> THEN <<>>
              ELSE <<CallLine(Head(cs))>> \o (IF Head(cs)[3] = "HANDLED" /\ Head(cs)[1] \in {"A", "B", "C"} THEN <<CallLine(Head(cs)) \o ":HOOK">> ELSE <<>>)
                   \o ExpSpy(Tail(cs))
RECURSIVE ExpTrc(_, _)
ExpTrc(sigs, cur) == IF sigs = <<>> THEN <<>>
                     ELSE IF Head(sigs) = "A" THEN <<<<"A", "s" \o ToString(cur), "s" \o ToString(3 - cur)>>>> \o ExpTrc(Tail(sigs), 3 - cur)
                     ELSE ExpTrc(Tail(sigs), cur)
LiveClauses ==
  IF ~L.live \/ End.outcome # "quiescent" \/ End.stopped THEN {}
  ELSE (IF L.live_spy_calls = ExpSpy(L.calls) THEN {} ELSE {"LiveSpy"})
       \cup (IF ~L.toggle \/ L.live_trc = <<<<"start_at", "top", "s1">>>> \o ExpTrc(L.disp_sigs, 1) THEN {} ELSE {"LiveTrace"})
Final ==
     (IF End.outcome = "bound" THEN {"NoProgress"} ELSE {})
  \cup (IF End.outcome = "error" THEN {"Error"} ELSE {})
  \cup (IF End.outcome = "quiescent" /\ ~End.posters_done THEN {"PostBlocked"} ELSE {})
  \cup (IF End.outcome = "quiescent" /\ End.posters_done /\ ~End.stopped /\ dq # <<>> THEN {"LostWake"} ELSE {})
  \cup (IF ~AtMostOnce THEN {"Twice"} ELSE {})
  \cup (IF End.dispatched # popped /\ ~End.stopped THEN {"DispatchNotPop"} ELSE {})
  \cup (IF ~InOrder THEN {"Order"} ELSE {})
  \cup (IF ~NothingLost THEN {"Lost"} ELSE {})
  \cup (IF End.rtc_overlap THEN {"RtcOverlap"} ELSE {})
  \cup LiveClauses

TNext ==
  /\ bad = {} /\ l <= Len(T.ops) + 1 /\ tid' = tid /\ l' = l + 1
  /\ IF l <= Len(T.ops) THEN Step ELSE bad' = Final /\ UNCHANGED avars
  /\ IF bad' # {} THEN PrintT(ToJson([tid |-> T.tid, at |-> l, bad |-> bad', dq |-> dq, everFull |-> everFull]))
     ELSE IF l = Len(T.ops) + 1 THEN PrintT(ToJson([tid |-> T.tid, done |-> l, everFull |-> everFull])) ELSE TRUE
TSpec == TInit /\ [][TNext]_tv
=============================================================================
