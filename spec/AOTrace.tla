------------------------------- MODULE AOTrace -------------------------------
(* Validates recorded executions of the real ActiveObject/LockingDeque (one per line of      *)
(* TRACE_FILE: {"tid", "cap", "ops":[[thread, op, obj, args, result, dq_after, tokens_after]],*)
(* "end": {...}}) against AO.tla.  Verdicts are total and name the failing clause.           *)
EXTENDS AO, Json, IOUtils, TLCExt
All == ndJsonDeserialize(IOEnv.TRACE_FILE)
VARIABLES tid, l, bad
tv == <<avars, tid, l, bad>>
T  == All[tid]
E  == T.ops[l]
Op == E[2]
After == E[6]
TInit == tid \in DOMAIN All /\ l = 1 /\ bad = {} /\ AInit

Step ==
  IF E[3] = "dq" THEN
    CASE Op = "append"     -> IF PostBackOK(E[4][1], After) THEN PostBack(E[4][1], After) /\ bad' = {}
                              ELSE bad' = {"PostBack"} /\ UNCHANGED avars
      [] Op = "appendleft" -> IF PostFrontOK(E[4][1], After) THEN PostFront(E[4][1], After) /\ bad' = {}
                              ELSE bad' = {"PostFront"} /\ UNCHANGED avars
      [] Op = "popleft"    -> IF PopOK(E[5]) /\ Tail(dq) = After THEN Pop(E[5]) /\ bad' = {}
                              ELSE bad' = {"Pop"} /\ UNCHANGED avars
      [] Op = "rotate"     -> IF RotateOK(After) THEN Rotate(After) /\ bad' = {}
                              ELSE bad' = {"RotateNotFull"} /\ UNCHANGED avars
      [] Op = "clear"      -> Clear /\ bad' = {}
      [] OTHER             -> bad' = (IF After = dq THEN {} ELSE {"Read"}) /\ UNCHANGED avars
  ELSE IF E[3] = "tokens" THEN Token(E[7]) /\ bad' = {}
  ELSE bad' = {} /\ UNCHANGED avars

(* verdict at the end of the execution *)
End == T.end
(* C21 for the active-object host: with live spy / live trace on, the writer thread hands every handler-call line of the spy *)
(* and every trace record to the registered callbacks exactly once and in production order.  Expected from the handlers' own *)
(* call log: "SIG:state", followed by "SIG:state:HOOK" when a chart signal was handled internally; and (two-state toggle     *)
(* chart) one trace record for the start and one per dispatched A.                                                            *)
L == End.liveout
CallLine(c) == c[1] \o ":s" \o ToString(c[2])
RECURSIVE ExpSpy(_)
ExpSpy(cs) == IF cs = <<>> THEN <<>>
              ELSE <<CallLine(Head(cs))>> \o (IF Head(cs)[3] = "HANDLED" /\ Head(cs)[1] \in {"A", "B", "C"} THEN <<CallLine(Head(cs)) \o ":HOOK">> ELSE <<>>)
                   \o ExpSpy(Tail(cs))
RECURSIVE ExpTrc(_, _)
ExpTrc(sigs, cur) == IF sigs = <<>> THEN <<>>
                     ELSE IF Head(sigs) = "A" THEN <<<<"A", "s" \o ToString(cur), "s" \o ToString(3 - cur)>>>> \o ExpTrc(Tail(sigs), 3 - cur)
                     ELSE ExpTrc(Tail(sigs), cur)
LiveClauses ==
  IF ~L.live \/ End.outcome # "quiescent" \/ End.stopped THEN {}
  ELSE (IF L.live_spy_calls = ExpSpy(L.calls) THEN {} ELSE {"LiveSpy"})
       \cup (IF ~L.toggle \/ L.live_trc = <<<<"start_at", "top", "s1">>>> \o ExpTrc(L.disp_sigs, 1) THEN {} ELSE {"LiveTrace"})
(* C23 for the active-object host: once start_at has returned, and when the object has come to rest, state_name names the   *)
(* current state and state_fn is its handler.  The expected current state comes from the chart and the handlers' own log:  *)
(* start_at(s1) settles in s2 when s1 is composite (nested chart), and every A that was answered with a transition moves   *)
(* to the sibling state.                                                                                                     *)
N == End.names
StartState == IF N.nested THEN 2 ELSE 1
Flip(st) == IF N.nested THEN (IF st = 2 THEN 3 ELSE 2) ELSE IF N.toggle THEN (IF st = 1 THEN 2 ELSE 1) ELSE st
FinalState == IF N.a_disp % 2 = 0 THEN StartState ELSE Flip(StartState)
Describes(d, st) == d = <<"s" \o ToString(st), st, st>>
NameClauses ==
  IF ~N.on THEN {}
  ELSE (IF N.early \/ Describes(N.after, StartState) THEN {} ELSE {"NameAfterStart"})
       \cup (IF End.outcome # "quiescent" \/ End.stopped \/ Describes(N.final, FinalState) THEN {} ELSE {"NameAtRest"})
Final ==
     (IF End.outcome = "bound" THEN {"NoProgress"} ELSE {})
  \cup (IF End.outcome = "error" THEN {"Error"} ELSE {})
  \cup (IF End.outcome = "quiescent" /\ ~End.posters_done THEN {"PostBlocked"} ELSE {})
  \cup (IF End.outcome = "quiescent" /\ End.posters_done /\ ~End.stopped /\ dq # <<>> THEN {"LostWake"} ELSE {})
  \cup (IF ~AtMostOnce THEN {"Twice"} ELSE {})
  \cup (IF End.dispatched # popped /\ ~End.stopped THEN {"DispatchNotPop"} ELSE {})
  \cup (IF ~InOrder THEN {"Order"} ELSE {})
  \cup (IF ~NothingLost THEN {"Lost"} ELSE {})
  \cup (IF End.rtc_overlap THEN {"RtcOverlap"} ELSE {})
  \cup LiveClauses \cup NameClauses

TNext ==
  /\ bad = {} /\ l <= Len(T.ops) + 1 /\ tid' = tid /\ l' = l + 1
  /\ IF l <= Len(T.ops) THEN Step ELSE bad' = Final /\ UNCHANGED avars
  /\ IF bad' # {} THEN PrintT(ToJson([tid |-> T.tid, at |-> l, bad |-> bad', dq |-> dq, everFull |-> everFull]))
     ELSE IF l = Len(T.ops) + 1 THEN PrintT(ToJson([tid |-> T.tid, done |-> l, everFull |-> everFull])) ELSE TRUE
TSpec == TInit /\ [][TNext]_tv
=============================================================================
