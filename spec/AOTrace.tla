------------------------------- MODULE AOTrace -------------------------------
(* Validates recorded executions of the real ActiveObject/LockingDeque (one per line of      *)
(* TRACE_FILE: {"tid", "cap", "ops":[[thread, op, obj, args, result, dq_after, tokens_after]],*)
(* "end": {...}}) against AO.tla.  Verdicts are total and name the failing clause.           *)
EXTENDS AO, Json, IOUtils, TLCExt
All == ndJsonDeserialize(IOEnv.TRACE_FILE)
VARIABLES tid, l, bad
tv == <<avars, tid, l, bad>>
T  == All[tid]
E  == T.ops[l]
Op == E[2]
After == E[6]
TInit == tid \in DOMAIN All /\ l = 1 /\ bad = {} /\ AInit

Step ==
  IF E[3] = "dq" THEN
    CASE Op = "append"     -> IF PostBackOK(E[4][1], After) THEN PostBack(E[4][1], After) /\ bad' = {}
                              ELSE bad' = {"PostBack"} /\ UNCHANGED avars
      [] Op = "appendleft" -> IF PostFrontOK(E[4][1], After) THEN PostFront(E[4][1], After) /\ bad' = {}
                              ELSE bad' = {"PostFront"} /\ UNCHANGED avars
      [] Op = "popleft"    -> IF PopOK(E[5]) /\ Tail(dq) = After THEN Pop(E[5]) /\ bad' = {}
                              ELSE bad' = {"Pop"} /\ UNCHANGED avars
      [] Op = "rotate"     -> IF RotateOK(After) THEN Rotate(After) /\ bad' = {}
                              ELSE bad' = {"RotateNotFull"} /\ UNCHANGED avars
      [] Op = "clear"      -> Clear /\ bad' = {}
      [] OTHER             -> bad' = (IF After = dq THEN {} ELSE {"Read"}) /\ UNCHANGED avars
  ELSE IF E[3] = "tokens" THEN Token(E[7]) /\ bad' = {}
  ELSE bad' = {} /\ UNCHANGED avars

(* verdict at the end of the execution *)
End == T.end
Final ==
     (IF End.outcome = "bound" THEN {"NoProgress"} ELSE {})
  \cup (IF End.outcome = "error" THEN {"Error"} ELSE {})
  \cup (IF End.outcome = "quiescent" /\ ~End.posters_done THEN {"PostBlocked"} ELSE {})
  \cup (IF End.outcome = "quiescent" /\ End.posters_done /\ ~End.stopped /\ dq # <<>> THEN {"LostWake"} ELSE {})
  \cup (IF ~AtMostOnce THEN {"Twice"} ELSE {})
  \cup (IF End.dispatched # popped /\ ~End.stopped THEN {"DispatchNotPop"} ELSE {})
  \cup (IF ~InOrder THEN {"Order"} ELSE {})
  \cup (IF ~NothingLost THEN {"Lost"} ELSE {})
  \cup (IF End.rtc_overlap THEN {"RtcOverlap"} ELSE {})

TNext ==
  /\ bad = {} /\ l <= Len(T.ops) + 1 /\ tid' = tid /\ l' = l + 1
  /\ IF l <= Len(T.ops) THEN Step ELSE bad' = Final /\ UNCHANGED avars
  /\ IF bad' # {} THEN PrintT(ToJson([tid |-> T.tid, at |-> l, bad |-> bad', dq |-> dq, everFull |-> everFull]))
     ELSE IF l = Len(T.ops) + 1 THEN PrintT(ToJson([tid |-> T.tid, done |-> l, everFull |-> everFull])) ELSE TRUE
TSpec == TInit /\ [][TNext]_tv
=============================================================================
