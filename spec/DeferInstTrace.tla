--------------------------- MODULE DeferInstTrace ---------------------------
(* C15 at the level of event INSTANCES.  Hsm.tla gives every post / deferral an event of its own (an id fixed at      *)
(* creation); user code hands the SAME Event object to defer / post_fifo again and again.  This module states the     *)
(* queue discipline over instances: the deferred queue and the pending queue are sequences of instance numbers, with  *)
(* multiplicity.  defer(i) appends i (also when i is already held back); recall moves the OLDEST deferred instance to *)
(* the back of the pending queue and returns it, and returns nothing (0) and changes nothing when nothing is held     *)
(* back; a step takes the front of the pending queue and dispatches it; nothing held back is dispatched.              *)
(* Recorded operation: <<kind, instance, returned/dispatched instance or 0, deferred after, pending after, status>>.  *)
EXTENDS Naturals, Sequences, TLC, Json, IOUtils, TLCExt
All == ndJsonDeserialize(IOEnv.TRACE_FILE)
VARIABLES dq, q, tid, l, bad
tv == <<dq, q, tid, l, bad>>
T == All[tid]
E == T.ops[l]
Chk(ok, name) == IF ok THEN {} ELSE {name}
Defer(i) == dq' = Append(dq, i) /\ q' = q
Post(i) == q' = Append(q, i) /\ dq' = dq
Recall == IF dq = <<>> THEN UNCHANGED <<dq, q>> ELSE dq' = Tail(dq) /\ q' = Append(q, Head(dq))
RecallRet == IF dq = <<>> THEN 0 ELSE Head(dq)
Step == IF q = <<>> THEN UNCHANGED <<dq, q>> ELSE q' = Tail(q) /\ dq' = dq
StepRet == IF q = <<>> THEN 0 ELSE Head(q)
TInit == tid \in DOMAIN All /\ l = 1 /\ bad = {} /\ dq = <<>> /\ q = <<>>
TStep ==
  /\ CASE E[1] = "defer" -> Defer(E[2])
       [] E[1] = "post" -> Post(E[2])
       [] E[1] = "recall" -> Recall
       [] E[1] = "step" -> Step
       [] OTHER -> UNCHANGED <<dq, q>>
  /\ bad' = Chk(E[6] = "ok", "Raised") \cup Chk(E[4] = dq', "Deferred") \cup Chk(E[5] = q', "Pending")
            \cup (IF E[1] = "recall" THEN Chk(E[3] = RecallRet, "RecallRet") ELSE {})
            \cup (IF E[1] = "step" THEN Chk(E[3] = StepRet, "Dispatched") ELSE {})
            \cup Chk(E[1] \in {"defer", "post", "recall", "step"}, "Harness")
TNext == /\ bad = {} /\ l <= Len(T.ops) /\ tid' = tid /\ l' = l + 1
         /\ TStep
         /\ IF bad' # {} THEN PrintT(ToJson([tid |-> T.tid, at |-> l, bad |-> bad', dq |-> dq, q |-> q, op |-> E]))
            ELSE IF l = Len(T.ops) THEN PrintT(ToJson([tid |-> T.tid, done |-> l])) ELSE TRUE
TSpec == TInit /\ [][TNext]_tv
(* what the instance-level discipline implies, checked on every validated execution: a held-back instance occurrence is not lost *)
Conserved == Len(dq) + Len(q) <= l
=============================================================================
