------------------------------- MODULE Timers -------------------------------
(* A timed source of an active object (activeobject.py: post_event_thread_runner) racing       *)
(* with cancel_event / cancel_events / stop, at the grain of one label per shared operation.   *)
(* Variant = "asis":   the timer reads its run flag and then posts; a cancel that clears the    *)
(*                     flag in between returns, and the post still happens afterwards (C11/C12)*)
(* Variant = "locked": the flag test + post, and the clearing of the flag, hold one lock.       *)
EXTENDS Naturals, Sequences, FiniteSets, TLC
CONSTANTS Timers, Times, Variant
Locked == Variant = "locked"
(* --algorithm Timers {
variables flag = [t \in Timers |-> TRUE], lock = "free", posts = <<>>,
          returned = {},          \* timers whose cancel call has returned
          late = FALSE,           \* a post happened after the cancel of its source returned
          handlerBusy = FALSE;    \* the active object's own thread is inside a handler that cancels

process (timer \in Timers)
variables n = 0;
{
 t_flag: while (flag[self]) {                              \* while spec.task_run_event.is_set()
   t_sleep: skip;                                          \* time.sleep(period)
   t_lock:  if (Locked) { await lock = "free"; lock := self };
   t_chk:   if (~flag[self]) {                             \* cancelled while sleeping
   t_rel0:    if (Locked) { lock := "free" };
              goto Done
            };
   t_post:  posts := Append(posts, self); n := n + 1;      \* post_fifo / post_lifo (never blocks)
            if (self \in returned) { late := TRUE };
   t_fin:   if (n >= Times) { flag[self] := FALSE };
   t_rel:   if (Locked) { lock := "free" };
 }
}

process (canceller = "cancel")
variables todo = Timers;
{
 c_loop: while (todo # {}) {
   with (t \in todo) {
     todo := todo \ {t};
     if (Locked) { await lock = "free" };                  \* with self.posted_events_lock:
     flag[t] := FALSE;                                     \*   task_run_event.clear()
     returned := returned \cup {t};                        \* the call returns
   }
 }
}
} *)
\* BEGIN TRANSLATION
VARIABLES pc, flag, lock, posts, returned, late, handlerBusy, n, todo

vars == << pc, flag, lock, posts, returned, late, handlerBusy, n, todo >>

ProcSet == (Timers) \cup {"cancel"}

Init == (* Global variables *)
        /\ flag = [t \in Timers |-> TRUE]
        /\ lock = "free"
        /\ posts = <<>>
        /\ returned = {}
        /\ late = FALSE
        /\ handlerBusy = FALSE
        (* Process timer *)
        /\ n = [self \in Timers |-> 0]
        (* Process canceller *)
        /\ todo = Timers
        /\ pc = [self \in ProcSet |-> CASE self \in Timers -> "t_flag"
                                        [] self = "cancel" -> "c_loop"]

t_flag(self) == /\ pc[self] = "t_flag"
                /\ IF flag[self]
                      THEN /\ pc' = [pc EXCEPT ![self] = "t_sleep"]
                      ELSE /\ pc' = [pc EXCEPT ![self] = "Done"]
                /\ UNCHANGED << flag, lock, posts, returned, late, handlerBusy, 
                                n, todo >>

t_sleep(self) == /\ pc[self] = "t_sleep"
                 /\ TRUE
                 /\ pc' = [pc EXCEPT ![self] = "t_lock"]
                 /\ UNCHANGED << flag, lock, posts, returned, late, 
                                 handlerBusy, n, todo >>

t_lock(self) == /\ pc[self] = "t_lock"
                /\ IF Locked
                      THEN /\ lock = "free"
                           /\ lock' = self
                      ELSE /\ TRUE
                           /\ lock' = lock
                /\ pc' = [pc EXCEPT ![self] = "t_chk"]
                /\ UNCHANGED << flag, posts, returned, late, handlerBusy, n, 
                                todo >>

t_chk(self) == /\ pc[self] = "t_chk"
               /\ IF ~flag[self]
                     THEN /\ pc' = [pc EXCEPT ![self] = "t_rel0"]
                     ELSE /\ pc' = [pc EXCEPT ![self] = "t_post"]
               /\ UNCHANGED << flag, lock, posts, returned, late, handlerBusy, 
                               n, todo >>

t_rel0(self) == /\ pc[self] = "t_rel0"
                /\ IF Locked
                      THEN /\ lock' = "free"
                      ELSE /\ TRUE
                           /\ lock' = lock
                /\ pc' = [pc EXCEPT ![self] = "Done"]
                /\ UNCHANGED << flag, posts, returned, late, handlerBusy, n, 
                                todo >>

t_post(self) == /\ pc[self] = "t_post"
                /\ posts' = Append(posts, self)
                /\ n' = [n EXCEPT ![self] = n[self] + 1]
                /\ IF self \in returned
                      THEN /\ late' = TRUE
                      ELSE /\ TRUE
                           /\ late' = late
                /\ pc' = [pc EXCEPT ![self] = "t_fin"]
                /\ UNCHANGED << flag, lock, returned, handlerBusy, todo >>

t_fin(self) == /\ pc[self] = "t_fin"
               /\ IF n[self] >= Times
                     THEN /\ flag' = [flag EXCEPT ![self] = FALSE]
                     ELSE /\ TRUE
                          /\ flag' = flag
               /\ pc' = [pc EXCEPT ![self] = "t_rel"]
               /\ UNCHANGED << lock, posts, returned, late, handlerBusy, n, 
                               todo >>

t_rel(self) == /\ pc[self] = "t_rel"
               /\ IF Locked
                     THEN /\ lock' = "free"
                     ELSE /\ TRUE
                          /\ lock' = lock
               /\ pc' = [pc EXCEPT ![self] = "t_flag"]
               /\ UNCHANGED << flag, posts, returned, late, handlerBusy, n, 
                               todo >>

timer(self) == t_flag(self) \/ t_sleep(self) \/ t_lock(self) \/ t_chk(self)
                  \/ t_rel0(self) \/ t_post(self) \/ t_fin(self)
                  \/ t_rel(self)

c_loop == /\ pc["cancel"] = "c_loop"
          /\ IF todo # {}
                THEN /\ \E t \in todo:
                          /\ todo' = todo \ {t}
                          /\ IF Locked
                                THEN /\ lock = "free"
                                ELSE /\ TRUE
                          /\ flag' = [flag EXCEPT ![t] = FALSE]
                          /\ returned' = (returned \cup {t})
                     /\ pc' = [pc EXCEPT !["cancel"] = "c_loop"]
                ELSE /\ pc' = [pc EXCEPT !["cancel"] = "Done"]
                     /\ UNCHANGED << flag, returned, todo >>
          /\ UNCHANGED << lock, posts, late, handlerBusy, n >>

canceller == c_loop

(* Allow infinite stuttering to prevent deadlock on termination. *)
Terminating == /\ \A self \in ProcSet: pc[self] = "Done"
               /\ UNCHANGED vars

Next == canceller
           \/ (\E self \in Timers: timer(self))
           \/ Terminating

Spec == Init /\ [][Next]_vars

Termination == <>(\A self \in ProcSet: pc[self] = "Done")

\* END TRANSLATION
NoPostAfterCancelReturned == ~late                                         \* C11 / C12
AllDone == \A p \in ProcSet : pc[p] = "Done"
NoDeadlock == AllDone \/ ENABLED Next
Terminates == <>AllDone
FairSpec == Spec /\ \A t \in Timers : WF_vars(timer(t)) /\ WF_vars(canceller)
=============================================================================
