-------------------------------- MODULE TSA --------------------------------
(* C27: the thread-safe attribute descriptor (thread_safe_attributes.py) used by several      *)
(* threads: reads, plain assignments and augmented assignments of one attribute.  One label   *)
(* per lock operation / access to the descriptor's shared fields.                             *)
(* Fixed = FALSE: a shared boolean says "the next __set__ belongs to an augmented assignment"; *)
(*                another thread's plain assignment can consume it, skip the acquire and then  *)
(*                release a lock it does not own.                                              *)
(* Fixed = TRUE : the descriptor remembers WHICH thread is inside an augmented assignment.     *)
EXTENDS Naturals, Sequences, FiniteSets, TLC
CONSTANTS Threads, Prog, Fixed
(* Prog[t] = sequence of statements: <<"read">>, <<"set", v>>, <<"aug", k>>.  Fixed: per-thread aug marker *)
None == "none"
(* --algorithm TSA {
variables owner = None, count = 0, isAtomic = TRUE, augOwner = None, value = 0, err = FALSE;
process (th \in Threads)
variables i = 1, st = <<>>, tmp = 0, flag = TRUE;
{
 loop: while (i <= Len(Prog[self])) {
   st := Prog[self][i];
   if (st[1] \in {"read", "aug"}) {
     g_acq: await owner \in {None, self}; owner := self; count := count + 1;
     g_at:  isAtomic := TRUE;
     g_cls: if (st[1] = "aug") { isAtomic := FALSE; augOwner := self }
            else { count := count - 1; if (count = 0) { owner := None }; };
     g_ret: tmp := value;
   };
   s0: if (st[1] \in {"set", "aug"}) {
     s_flag: if (Fixed) { flag := (augOwner # self) } else { flag := isAtomic };
     s_acq: if (flag) { await owner \in {None, self}; owner := self; count := count + 1 }
            else { if (Fixed) { augOwner := None } };
     s_val: value := IF st[1] = "set" THEN st[2] ELSE tmp + st[2];
     s_at:  isAtomic := TRUE;
     s_rel: if (owner # self) { err := TRUE } else { count := count - 1; if (count = 0) { owner := None } };
   };
   nxt: i := i + 1;
 }
}
} *)
\* BEGIN TRANSLATION  (pcal output elided)
VARIABLES pc, owner, count, isAtomic, augOwner, value, err, i, st, tmp, flag

vars == << pc, owner, count, isAtomic, augOwner, value, err, i, st, tmp, flag
        >>

ProcSet == (Threads)

Init == (* Global variables *)
        /\ owner = None
        /\ count = 0
        /\ isAtomic = TRUE
        /\ augOwner = None
        /\ value = 0
        /\ err = FALSE
        (* Process th *)
        /\ i = [self \in Threads |-> 1]
        /\ st = [self \in Threads |-> <<>>]
        /\ tmp = [self \in Threads |-> 0]
        /\ flag = [self \in Threads |-> TRUE]
        /\ pc = [self \in ProcSet |-> "loop"]

loop(self) == /\ pc[self] = "loop"
              /\ IF i[self] <= Len(Prog[self])
                    THEN /\ st' = [st EXCEPT ![self] = Prog[self][i[self]]]
                         /\ IF st'[self][1] \in {"read", "aug"}
                               THEN /\ pc' = [pc EXCEPT ![self] = "g_acq"]
                               ELSE /\ pc' = [pc EXCEPT ![self] = "s0"]
                    ELSE /\ pc' = [pc EXCEPT ![self] = "Done"]
                         /\ st' = st
              /\ UNCHANGED << owner, count, isAtomic, augOwner, value, err, i, 
                              tmp, flag >>

s0(self) == /\ pc[self] = "s0"
            /\ IF st[self][1] \in {"set", "aug"}
                  THEN /\ pc' = [pc EXCEPT ![self] = "s_flag"]
                  ELSE /\ pc' = [pc EXCEPT ![self] = "nxt"]
            /\ UNCHANGED << owner, count, isAtomic, augOwner, value, err, i, 
                            st, tmp, flag >>

s_flag(self) == /\ pc[self] = "s_flag"
                /\ IF Fixed
                      THEN /\ flag' = [flag EXCEPT ![self] = (augOwner # self)]
                      ELSE /\ flag' = [flag EXCEPT ![self] = isAtomic]
                /\ pc' = [pc EXCEPT ![self] = "s_acq"]
                /\ UNCHANGED << owner, count, isAtomic, augOwner, value, err, 
                                i, st, tmp >>

s_acq(self) == /\ pc[self] = "s_acq"
               /\ IF flag[self]
                     THEN /\ owner \in {None, self}
                          /\ owner' = self
                          /\ count' = count + 1
                          /\ UNCHANGED augOwner
                     ELSE /\ IF Fixed
                                THEN /\ augOwner' = None
                                ELSE /\ TRUE
                                     /\ UNCHANGED augOwner
                          /\ UNCHANGED << owner, count >>
               /\ pc' = [pc EXCEPT ![self] = "s_val"]
               /\ UNCHANGED << isAtomic, value, err, i, st, tmp, flag >>

s_val(self) == /\ pc[self] = "s_val"
               /\ value' = (IF st[self][1] = "set" THEN st[self][2] ELSE tmp[self] + st[self][2])
               /\ pc' = [pc EXCEPT ![self] = "s_at"]
               /\ UNCHANGED << owner, count, isAtomic, augOwner, err, i, st, 
                               tmp, flag >>

s_at(self) == /\ pc[self] = "s_at"
              /\ isAtomic' = TRUE
              /\ pc' = [pc EXCEPT ![self] = "s_rel"]
              /\ UNCHANGED << owner, count, augOwner, value, err, i, st, tmp, 
                              flag >>

s_rel(self) == /\ pc[self] = "s_rel"
               /\ IF owner # self
                     THEN /\ err' = TRUE
                          /\ UNCHANGED << owner, count >>
                     ELSE /\ count' = count - 1
                          /\ IF count' = 0
                                THEN /\ owner' = None
                                ELSE /\ TRUE
                                     /\ owner' = owner
                          /\ err' = err
               /\ pc' = [pc EXCEPT ![self] = "nxt"]
               /\ UNCHANGED << isAtomic, augOwner, value, i, st, tmp, flag >>

nxt(self) == /\ pc[self] = "nxt"
             /\ i' = [i EXCEPT ![self] = i[self] + 1]
             /\ pc' = [pc EXCEPT ![self] = "loop"]
             /\ UNCHANGED << owner, count, isAtomic, augOwner, value, err, st, 
                             tmp, flag >>

g_acq(self) == /\ pc[self] = "g_acq"
               /\ owner \in {None, self}
               /\ owner' = self
               /\ count' = count + 1
               /\ pc' = [pc EXCEPT ![self] = "g_at"]
               /\ UNCHANGED << isAtomic, augOwner, value, err, i, st, tmp, 
                               flag >>

g_at(self) == /\ pc[self] = "g_at"
              /\ isAtomic' = TRUE
              /\ pc' = [pc EXCEPT ![self] = "g_cls"]
              /\ UNCHANGED << owner, count, augOwner, value, err, i, st, tmp, 
                              flag >>

g_cls(self) == /\ pc[self] = "g_cls"
               /\ IF st[self][1] = "aug"
                     THEN /\ isAtomic' = FALSE
                          /\ augOwner' = self
                          /\ UNCHANGED << owner, count >>
                     ELSE /\ count' = count - 1
                          /\ IF count' = 0
                                THEN /\ owner' = None
                                ELSE /\ TRUE
                                     /\ owner' = owner
                          /\ UNCHANGED << isAtomic, augOwner >>
               /\ pc' = [pc EXCEPT ![self] = "g_ret"]
               /\ UNCHANGED << value, err, i, st, tmp, flag >>

g_ret(self) == /\ pc[self] = "g_ret"
               /\ tmp' = [tmp EXCEPT ![self] = value]
               /\ pc' = [pc EXCEPT ![self] = "s0"]
               /\ UNCHANGED << owner, count, isAtomic, augOwner, value, err, i, 
                               st, flag >>

th(self) == loop(self) \/ s0(self) \/ s_flag(self) \/ s_acq(self)
               \/ s_val(self) \/ s_at(self) \/ s_rel(self) \/ nxt(self)
               \/ g_acq(self) \/ g_at(self) \/ g_cls(self) \/ g_ret(self)

(* Allow infinite stuttering to prevent deadlock on termination. *)
Terminating == /\ \A self \in ProcSet: pc[self] = "Done"
               /\ UNCHANGED vars

Next == (\E self \in Threads: th(self))
           \/ Terminating

Spec == Init /\ [][Next]_vars

Termination == <>(\A self \in ProcSet: pc[self] = "Done")

\* END TRANSLATION
ProgDef == [t1 |-> <<<<"aug", 1>>>>, t2 |-> <<<<"set", 5>>>>]
NoErr == ~err
AllDone == \A t \in Threads : pc[t] = "Done"
Final == AllDone => value \in {5, 6}
LockFree == AllDone => (count = 0 /\ owner = None)
Prog2 == [t1 |-> <<<<"aug", 1>>, <<"read">>>>, t2 |-> <<<<"set", 5>>, <<"aug", 2>>>>]
Final2 == AllDone => value \in {7, 8}      \* the serial outcomes of Prog2 from 0
NoDeadlock == \/ AllDone \/ ENABLED Next
=============================================================================
