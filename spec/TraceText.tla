------------------------------ MODULE TraceText ------------------------------
(* C32: what stripped() must do, at the level of tokens.  A trace text is a sequence of lines;    *)
(* a line is either blank (only whitespace) or a record: leading whitespace, a timestamp in       *)
(* brackets, a body, trailing whitespace.  Norm(x) = the bodies of the records, in order.          *)
(* Two texts "differ only in timestamps, blank lines or whitespace around lines" iff one can be    *)
(* turned into the other by the elementary edits below; TLC checks on the whole universe of short  *)
(* texts that this relation coincides with Norm(x) = Norm(y):                                      *)
(*   (=>) every elementary edit preserves Norm            (invariant EditsPreserveNorm)            *)
(*   (<=) every text reaches its canonical form by elementary edits, and texts with equal Norm     *)
(*        have equal canonical forms                       (assumptions CanonByEdits, CanonUnique) *)
(* The universe (with Norm of every text) is exported as JSON; harness/textdrive.py renders each   *)
(* text with real material and feeds it to the real stripped().                                   *)
EXTENDS Naturals, Sequences, FiniteSets, TLC, Json
CONSTANTS MaxLen
TS    == {"t1", "t2"}
Body  == {"b1", "b2"}
Lead  == {"", "w"}
Trail == {"", "w"}
Blank == {[k |-> "blank", ws |-> w] : w \in {"", "w"}}
Rec   == {[k |-> "rec", lead |-> ld, ts |-> t, body |-> b, trail |-> tr] : ld \in Lead, t \in TS, b \in Body, tr \in Trail}
Token == Blank \cup Rec
RECURSIVE SeqsUpTo(_)
SeqsUpTo(n) == IF n = 0 THEN {<<>>} ELSE SeqsUpTo(n - 1) \cup {Append(s, t) : s \in {x \in SeqsUpTo(n - 1) : Len(x) = n - 1}, t \in Token}
Texts == SeqsUpTo(MaxLen) \ {<<>>}

Norm(x) == LET recs == SelectSeq(x, LAMBDA t : t.k = "rec") IN [i \in 1..Len(recs) |-> recs[i].body]

(* elementary edits *)
RemoveAt(s, i) == SubSeq(s, 1, i - 1) \o SubSeq(s, i + 1, Len(s))
InsertAt(s, i, t) == SubSeq(s, 1, i - 1) \o <<t>> \o SubSeq(s, i, Len(s))
Edits(x) ==
     {RemoveAt(x, i) : i \in {j \in 1..Len(x) : x[j].k = "blank"}}                                     \* drop a blank line
  \cup {InsertAt(x, i, b) : i \in 1..(Len(x) + 1), b \in Blank}                                         \* add a blank line
  \cup {[x EXCEPT ![i] = [@ EXCEPT !.ts = t]] : i \in {j \in 1..Len(x) : x[j].k = "rec"}, t \in TS}      \* another timestamp
  \cup {[x EXCEPT ![i] = [@ EXCEPT !.lead = w]] : i \in {j \in 1..Len(x) : x[j].k = "rec"}, w \in Lead}  \* whitespace before the line
  \cup {[x EXCEPT ![i] = [@ EXCEPT !.trail = w]] : i \in {j \in 1..Len(x) : x[j].k = "rec"}, w \in Trail}
  \cup {[x EXCEPT ![i] = [@ EXCEPT !.ws = w]] : i \in {j \in 1..Len(x) : x[j].k = "blank"}, w \in {"", "w"}}

(* (=>) one elementary edit never changes Norm; by induction neither does any sequence of edits *)
EditsPreserveNorm == \A y \in Texts : \A z \in Edits(y) : Norm(z) = Norm(y)
ASSUME EditsPreserveNorm

VARIABLE done
Init == done = FALSE
Next == done' = TRUE
Spec == Init /\ [][Next]_done

(* canonical form: no blank lines, first timestamp, no whitespace; reached by one edit at a time *)
CanonTok(t) == [k |-> "rec", lead |-> "", ts |-> "t1", body |-> t.body, trail |-> ""]
Canon(y) == LET recs == SelectSeq(y, LAMBDA t : t.k = "rec") IN [i \in 1..Len(recs) |-> CanonTok(recs[i])]
RECURSIVE Reaches(_, _)
Reaches(y, fuel) ==       \* y can be edited into Canon(y), one elementary edit at a time, each step staying inside Edits
  IF y = Canon(y) THEN TRUE
  ELSE IF fuel = 0 THEN FALSE
  ELSE LET blanks == {j \in 1..Len(y) : y[j].k = "blank"}
           dirty  == {j \in 1..Len(y) : y[j].k = "rec" /\ y[j] # CanonTok(y[j])}
           nxt == IF blanks # {} THEN RemoveAt(y, CHOOSE j \in blanks : TRUE)
                  ELSE LET j == CHOOSE j \in dirty : TRUE
                       IN IF y[j].ts # "t1" THEN [y EXCEPT ![j] = [@ EXCEPT !.ts = "t1"]]
                          ELSE IF y[j].lead # "" THEN [y EXCEPT ![j] = [@ EXCEPT !.lead = ""]]
                          ELSE [y EXCEPT ![j] = [@ EXCEPT !.trail = ""]]
       IN nxt \in Edits(y) /\ Reaches(nxt, fuel - 1)
CanonByEdits == \A y \in Texts : Reaches(y, 4 * MaxLen + 2)
CanonUnique  == \A y, z \in Texts : (Norm(y) = Norm(z)) <=> (Canon(y) = Canon(z))
ASSUME CanonByEdits
ASSUME CanonUnique
(* export of the universe for the implementation tests *)
ASSUME \A y \in Texts : PrintT(ToJson([text |-> y, norm |-> Norm(y)]))
=============================================================================
