----------------------------- MODULE FabricTrace -----------------------------
(* Validates recorded executions of the real ActiveFabric against Fabric.tla; total verdicts. *)
EXTENDS Fabric, Json, IOUtils, TLCExt
All == ndJsonDeserialize(IOEnv.TRACE_FILE)
VARIABLES tid, l, bad, nthreads, called
tv == <<fvars, tid, l, bad, nthreads, called>>
T == All[tid]
E == T.ev[l]
NF == E[Len(E) - 1]
NL == E[Len(E)]
TInit == tid \in DOMAIN All /\ l = 1 /\ bad = {} /\ FInit /\ nthreads = <<0, 0>> /\ called = {}
KindOf(th) == IF Len(th) < 8 THEN "none"
              ELSE IF SubSeq(th, 1, 8) = "fab_fifo" THEN "fifo" ELSE IF SubSeq(th, 1, 8) = "fab_lifo" THEN "lifo" ELSE "none"
Chk(ok, name) == IF ok THEN {} ELSE {name}
Item(kind, id) == CHOOSE x \in SeqSet(pq[kind]) : x[3] = id
Threads == Chk(NF <= 1 /\ NL <= 1, "TwoThreads")

Step ==
  (* the registry holds exactly the subscribed queues, each once; the ORDER of the queues in it is not part of C06 *)
  CASE E[1] = "sub" -> Subscribe(E[2], E[3], E[4])
                       /\ bad' = Threads \cup Chk(SeqSet(E[5]) = SeqSet(subs'[E[4]][E[3]]) /\ Len(E[5]) = Len(subs'[E[4]][E[3]]), "Registry")
    [] E[1] = "pubcall" -> PubCall(E[2]) /\ bad' = Threads
    [] E[1] = "pubret" -> PubRet(E[2]) /\ bad' = Threads
    [] E[1] = "put" -> Put(E[2], E[3], E[4], E[5]) /\ bad' = Threads
    [] E[1] = "get" ->
         IF \E x \in SeqSet(pq[E[2]]) : x[3] = E[3]
         THEN IF KindOf(E[6]) = "none" THEN Drain(E[2], Item(E[2], E[3])) /\ bad' = Threads
              ELSE Get(E[2], Item(E[2], E[3])) /\ bad' = Threads \cup Chk(GetOK(E[2], E[3]), "Unstable")
         ELSE bad' = {"GetUnknown"} /\ UNCHANGED fvars
    [] E[1] = "app" ->
         LET k == KindOf(E[4]) IN
         IF k = "none" \/ E[3] = 0 THEN bad' = Threads /\ UNCHANGED fvars
         (* a queue whose subscribe() call has begun may already be in the registry (the call has not returned yet) *)
         (* C08: a delivery thread hands over the event it took LAST - an event taken earlier and kept aside (a batch) would be    *)
         (* delivered after events that were still waiting in the fabric, possibly more urgent ones, when it is finally handed over *)
         ELSE IF inflight[k] # <<>> /\ inflight[k][1] # E[3] THEN bad' = {"OutOfTurn"} /\ UNCHANGED fvars
         ELSE IF ~DeliverOK(k, E[2], E[3]) /\ ~(inflight[k] # <<>> /\ inflight[k][1] = E[3] /\ <<E[2], inflight[k][2], k>> \in called)
              THEN bad' = {"NotSubscribed"} /\ UNCHANGED fvars
         ELSE Deliver(k, E[2], E[3]) /\ bad' = Threads \cup Chk(<<E[3], E[2], k>> \notin delivered, "Twice")
    [] E[1] = "ret" /\ E[2] = "start" -> Started /\ bad' = Threads \cup Chk(NF = 1 /\ NL = 1, "StartFailed")
    (* start() raised because a thread could not be started: whatever it did start stays the fabric's; nothing is promised yet *)
    [] E[1] = "ret" /\ E[2] = "startraised" -> bad' = Threads /\ UNCHANGED fvars
    [] E[1] = "call" /\ E[2] = "stop" -> StopCalled /\ bad' = Threads
    [] E[1] = "ret" /\ E[2] = "stop" -> bad' = Threads \cup Chk(NF = 0 /\ NL = 0 /\ E[3] = "F", "StopLeft") /\ UNCHANGED fvars
    [] E[1] = "clear" -> Clear /\ bad' = Threads
    [] E[1] = "alive" -> bad' = Threads \cup Chk((E[2] = "T") = (NF = 1 /\ NL = 1), "IsAlive") /\ UNCHANGED fvars
    (* C30: ActiveFabric(), the fabric run event, the writer, Signal() and ReturnStatus() still yield the objects they yielded at first *)
    [] E[1] = "single" -> bad' = Threads \cup Chk(E[2] = "", "NotSingle") /\ UNCHANGED fvars
    [] OTHER -> bad' = Threads /\ UNCHANGED fvars

Final ==
       Chk(T.end.outcome # "bound", "NoProgress") \cup Chk(T.end.outcome # "error", "Error")
  \cup Chk(T.end.outcome # "quiescent" \/ T.end.drivers_done, "Hang")
  \cup Chk(~(T.end.outcome = "quiescent" /\ T.end.drivers_done /\ running)
           \/ {o \in owed : o[3] \notin {T.end.poisoned[k] : k \in 1..Len(T.end.poisoned)}} \subseteq delivered, "Missing")
  \cup Chk(NoDupSubs, "DupSubs")

TNext ==
  /\ bad = {} /\ l <= Len(T.ev) + 1 /\ tid' = tid /\ l' = l + 1
  /\ IF l <= Len(T.ev) THEN Step /\ nthreads' = <<NF, NL>> ELSE bad' = Final /\ UNCHANGED <<fvars, nthreads>>
  /\ called' = IF l <= Len(T.ev) /\ E[1] = "subcall" THEN called \cup {<<E[2], E[3], E[4]>>} ELSE called
  /\ IF bad' # {} THEN PrintT(ToJson([tid |-> T.tid, at |-> l, bad |-> bad', owed |-> owed \ delivered]))
     ELSE IF l = Len(T.ev) + 1 THEN PrintT(ToJson([tid |-> T.tid, done |-> l])) ELSE TRUE
TSpec == TInit /\ [][TNext]_tv
OneThreadPerKind == TRUE
=============================================================================
