--------------------------------- MODULE AO ---------------------------------
(* The active object's pending-event queue seen from outside (property level, C04/C05/C16): *)
(* an atomic bounded deque with wake-up tokens.  Posts take effect at their deque operation  *)
(* (the linearization point), the object's thread pops the front event and dispatches it.    *)
(* LockingDeque.tla refines this at the grain of single primitive operations; recorded       *)
(* executions of the real code are validated against these actions by AOTrace.tla.           *)
EXTENDS Naturals, Sequences, FiniteSets, TLC
CONSTANT Cap
VARIABLES dq,        \* pending event ids, front first
          tokens,    \* wake-up tokens
          applied,   \* history: posts in the order they took effect, <<"f"|"l", id>>
          popped,    \* history: ids taken by the object's thread, in order
          everFull   \* history: the queue has been at capacity (the overflow regime of C04)
avars == <<dq, tokens, applied, popped, everFull>>

AInit == dq = <<>> /\ tokens = 0 /\ applied = <<>> /\ popped = <<>> /\ everFull = FALSE

Full(s)  == Len(s) >= Cap
(* a post never blocks and keeps the NEW event (C16); a full queue gives up ONE older event *)
(* (which one is not prescribed) and keeps the others in their order, like a bounded deque  *)
RemoveAt(s, i) == SubSeq(s, 1, i - 1) \o SubSeq(s, i + 1, Len(s))
PostBackOK(id, ndq) ==
  /\ Len(ndq) >= 1 /\ ndq[Len(ndq)] = id /\ Len(ndq) <= Cap
  /\ IF Full(dq) THEN \E i \in 1..Len(dq) : ndq = Append(RemoveAt(dq, i), id) ELSE ndq = Append(dq, id)
PostBack(id, ndq) ==
  /\ PostBackOK(id, ndq)
  /\ dq' = ndq /\ applied' = Append(applied, <<"f", id>>) /\ everFull' = (everFull \/ Full(dq) \/ Full(ndq))
  /\ UNCHANGED <<tokens, popped>>
PostFrontOK(id, ndq) ==
  /\ Len(ndq) >= 1 /\ ndq[1] = id /\ Len(ndq) <= Cap
  /\ IF Full(dq) THEN \E i \in 1..Len(dq) : ndq = <<id>> \o RemoveAt(dq, i) ELSE ndq = <<id>> \o dq
PostFront(id, ndq) ==
  /\ PostFrontOK(id, ndq)
  /\ dq' = ndq /\ applied' = Append(applied, <<"l", id>>) /\ everFull' = (everFull \/ Full(dq) \/ Full(ndq))
  /\ UNCHANGED <<tokens, popped>>
PopOK(id) == dq # <<>> /\ Head(dq) = id
Pop(id) ==
  /\ PopOK(id)
  /\ dq' = Tail(dq) /\ popped' = Append(popped, id)
  /\ UNCHANGED <<tokens, applied, everFull>>
(* making room may reorder the queue only in the overflow regime, i.e. once the queue has *)
(* been at capacity (a poster may act on a fullness test the consumer has since outdated) *)
RotateOK(ndq) == (everFull \/ ndq = dq) /\ Len(ndq) = Len(dq)
Rotate(ndq) == RotateOK(ndq) /\ dq' = ndq /\ UNCHANGED <<tokens, applied, popped, everFull>>
Token(n) == n <= Cap /\ tokens' = n /\ UNCHANGED <<dq, applied, popped, everFull>>
Clear == dq' = <<>> /\ UNCHANGED <<tokens, applied, popped, everFull>>

RECURSIVE Ideal(_, _)
Ideal(ops, acc) == IF ops = <<>> THEN acc
                   ELSE IF Head(ops)[1] = "f" THEN Ideal(Tail(ops), Append(acc, Head(ops)[2]))
                   ELSE Ideal(Tail(ops), <<Head(ops)[2]>> \o acc)
RECURSIVE Removed(_, _)
Removed(s, d) == IF s = <<>> THEN <<>> ELSE IF Head(s) \in d THEN Removed(Tail(s), d) ELSE <<Head(s)>> \o Removed(Tail(s), d)
Ids(s) == {s[k] : k \in 1..Len(s)}

Bounded     == Len(dq) <= Cap /\ tokens <= Cap
AtMostOnce  == \A a, b \in 1..Len(popped) : a # b => popped[a] # popped[b]
(* outside the overflow regime the pending events are exactly what an atomic deque holds *)
InOrder     == ~everFull => dq = Removed(Ideal(applied, <<>>), Ids(popped))
NothingLost == ~everFull => Ids(popped) \cup Ids(dq) = {applied[k][2] : k \in 1..Len(applied)}
=============================================================================
