---------------------------- MODULE LockingDeque ----------------------------
(* The pending-event queue of an active object (activeobject.py: LockingDeque = a bounded   *)
(* deque `dq` + a bounded token queue `tokens`), the threads that post to it (append /      *)
(* appendleft) and the active object's own thread (run_event / next_rtc), at the grain of   *)
(* ONE LABEL PER OPERATION ON A SHARED PRIMITIVE - exactly the points at which harness B    *)
(* (dsched/shims) can pre-empt the real code, so a TLC behaviour is a schedule of the real  *)
(* threads and vice versa.                                                                  *)
(*                                                                                          *)
(* Variant = "asis"  : the code before the "fix:" commits (token before item, branch on the *)
(*                     token queue being full, `!=` repair loop, blocking put, appendleft   *)
(*                     dropping the new event when full)                                    *)
(* Variant = "fixed" : the repaired code (item first, non-blocking token, branch on the     *)
(*                     deque being full, `<` repair loop)                                   *)
EXTENDS Naturals, Sequences, FiniteSets, TLC
CONSTANTS Cap, Posters, Prog, Variant
(* Prog[p] = sequence of "f" (post_fifo / append) and "l" (post_lifo / appendleft) *)

Rot1(s)    == IF s = <<>> THEN s ELSE <<s[Len(s)]>> \o SubSeq(s, 1, Len(s) - 1)
AppR(s, x) == IF Len(s) >= Cap THEN Append(Tail(s), x) ELSE Append(s, x)                 \* deque(maxlen).append
AppL(s, x) == IF Len(s) >= Cap THEN <<x>> \o SubSeq(s, 1, Len(s) - 1) ELSE <<x>> \o s    \* deque(maxlen).appendleft
Fixed == Variant = "fixed"

(* --algorithm LockingDeque {
variables dq = <<>>, tokens = 0,
          dispatched = <<>>,      \* history: ids popped by the consumer, in order
          applied = <<>>,         \* history: the deque operations in the order they took effect
          fullSeen = FALSE,       \* history: some poster's fullness test answered "full"
          trueOverflow = FALSE;   \* history: a deque operation displaced an item

process (poster \in Posters)
variables i = 1, f = FALSE, qs = 0, ln = 0;
{
 p_loop: while (i <= Len(Prog[self])) {
   if (Fixed) {
     if (Prog[self][i] = "f") {
       x_len:  f := (Len(dq) >= Cap);                                  \* len(self.deque) >= maxlen
               if (f) { fullSeen := TRUE;
       x_rot:    dq := Rot1(dq) };                                      \* self.deque.rotate(1)
       x_app:  if (Len(dq) >= Cap) { trueOverflow := TRUE };
               dq := AppR(dq, <<self, i>>); applied := Append(applied, <<"f", <<self, i>>>>);
     } else {
       x_appl: if (Len(dq) >= Cap) { trueOverflow := TRUE; fullSeen := TRUE };
               dq := AppL(dq, <<self, i>>); applied := Append(applied, <<"l", <<self, i>>>>);
     };
     y_put:  if (tokens >= Cap) { goto a_next } else { tokens := tokens + 1 };   \* put_nowait; Full -> done
     y_q:    qs := tokens;                                                       \* qsize()
     y_l:    ln := Len(dq);                                                      \* len(self.deque)
             if (qs < ln) { goto y_put } else { goto a_next };
   } else {
     a_full: f := (tokens >= Cap);                                     \* self.locking_queue.full()
             if (Len(dq) >= Cap) { fullSeen := TRUE };             \* the pending-event queue itself is at capacity
             if (~f) {
     a_put:    await tokens < Cap; tokens := tokens + 1;               \* blocking put
     a_app:    if (Len(dq) >= Cap) { trueOverflow := TRUE };
               if (Prog[self][i] = "f") { dq := AppR(dq, <<self, i>>) } else { dq := AppL(dq, <<self, i>>) };
               applied := Append(applied, <<Prog[self][i], <<self, i>>>>);
             } else if (Prog[self][i] = "f") {
     a_rot:    dq := Rot1(dq);
     a_app2:   if (Len(dq) >= Cap) { trueOverflow := TRUE };
               dq := AppR(dq, <<self, i>>); applied := Append(applied, <<"f", <<self, i>>>>);
             } else {
     a_drop:   applied := Append(applied, <<"dropped", <<self, i>>>>);  \* appendleft on a full token queue: the event is lost
             };
     a_c1:   qs := tokens;                                             \* qsize()
     a_c2:   ln := Len(dq);                                            \* len(self.deque)
             if (qs < ln) {
     r_q:      qs := tokens;
     r_l:      ln := Len(dq);
               if (qs # ln) {
     r_put:      await tokens < Cap; tokens := tokens + 1;
                 goto r_q;
               }
             };
   };
   a_next: i := i + 1;
 }
}

process (consumer = "C")
variables cl = 0;
{
 c_get: while (TRUE) {
          await tokens > 0; tokens := tokens - 1;                       \* queue.wait()
   c_len: cl := Len(dq);                                                \* len(self.queue) >= 1
          if (cl >= 1) {
   c_peek:  skip;                                                       \* self.queue.deque[0]
   n_len:   cl := Len(dq);                                              \* next_rtc: len(self.queue) != 0
            if (cl # 0) {
   n_pop:     dispatched := Append(dispatched, Head(dq)); dq := Tail(dq);   \* popleft + dispatch
            }
          }
        }
}
} *)
\* BEGIN TRANSLATION
VARIABLES pc, dq, tokens, dispatched, applied, fullSeen, trueOverflow, i, f, 
          qs, ln, cl

vars == << pc, dq, tokens, dispatched, applied, fullSeen, trueOverflow, i, f, 
           qs, ln, cl >>

ProcSet == (Posters) \cup {"C"}

Init == (* Global variables *)
        /\ dq = <<>>
        /\ tokens = 0
        /\ dispatched = <<>>
        /\ applied = <<>>
        /\ fullSeen = FALSE
        /\ trueOverflow = FALSE
        (* Process poster *)
        /\ i = [self \in Posters |-> 1]
        /\ f = [self \in Posters |-> FALSE]
        /\ qs = [self \in Posters |-> 0]
        /\ ln = [self \in Posters |-> 0]
        (* Process consumer *)
        /\ cl = 0
        /\ pc = [self \in ProcSet |-> CASE self \in Posters -> "p_loop"
                                        [] self = "C" -> "c_get"]

p_loop(self) == /\ pc[self] = "p_loop"
                /\ IF i[self] <= Len(Prog[self])
                      THEN /\ IF Fixed
                                 THEN /\ IF Prog[self][i[self]] = "f"
                                            THEN /\ pc' = [pc EXCEPT ![self] = "x_len"]
                                            ELSE /\ pc' = [pc EXCEPT ![self] = "x_appl"]
                                 ELSE /\ pc' = [pc EXCEPT ![self] = "a_full"]
                      ELSE /\ pc' = [pc EXCEPT ![self] = "Done"]
                /\ UNCHANGED << dq, tokens, dispatched, applied, fullSeen, 
                                trueOverflow, i, f, qs, ln, cl >>

a_next(self) == /\ pc[self] = "a_next"
                /\ i' = [i EXCEPT ![self] = i[self] + 1]
                /\ pc' = [pc EXCEPT ![self] = "p_loop"]
                /\ UNCHANGED << dq, tokens, dispatched, applied, fullSeen, 
                                trueOverflow, f, qs, ln, cl >>

y_put(self) == /\ pc[self] = "y_put"
               /\ IF tokens >= Cap
                     THEN /\ pc' = [pc EXCEPT ![self] = "a_next"]
                          /\ UNCHANGED tokens
                     ELSE /\ tokens' = tokens + 1
                          /\ pc' = [pc EXCEPT ![self] = "y_q"]
               /\ UNCHANGED << dq, dispatched, applied, fullSeen, trueOverflow, 
                               i, f, qs, ln, cl >>

y_q(self) == /\ pc[self] = "y_q"
             /\ qs' = [qs EXCEPT ![self] = tokens]
             /\ pc' = [pc EXCEPT ![self] = "y_l"]
             /\ UNCHANGED << dq, tokens, dispatched, applied, fullSeen, 
                             trueOverflow, i, f, ln, cl >>

y_l(self) == /\ pc[self] = "y_l"
             /\ ln' = [ln EXCEPT ![self] = Len(dq)]
             /\ IF qs[self] < ln'[self]
                   THEN /\ pc' = [pc EXCEPT ![self] = "y_put"]
                   ELSE /\ pc' = [pc EXCEPT ![self] = "a_next"]
             /\ UNCHANGED << dq, tokens, dispatched, applied, fullSeen, 
                             trueOverflow, i, f, qs, cl >>

a_full(self) == /\ pc[self] = "a_full"
                /\ f' = [f EXCEPT ![self] = (tokens >= Cap)]
                /\ IF Len(dq) >= Cap
                      THEN /\ fullSeen' = TRUE
                      ELSE /\ TRUE
                           /\ UNCHANGED fullSeen
                /\ IF ~f'[self]
                      THEN /\ pc' = [pc EXCEPT ![self] = "a_put"]
                      ELSE /\ IF Prog[self][i[self]] = "f"
                                 THEN /\ pc' = [pc EXCEPT ![self] = "a_rot"]
                                 ELSE /\ pc' = [pc EXCEPT ![self] = "a_drop"]
                /\ UNCHANGED << dq, tokens, dispatched, applied, trueOverflow, 
                                i, qs, ln, cl >>

a_put(self) == /\ pc[self] = "a_put"
               /\ tokens < Cap
               /\ tokens' = tokens + 1
               /\ pc' = [pc EXCEPT ![self] = "a_app"]
               /\ UNCHANGED << dq, dispatched, applied, fullSeen, trueOverflow, 
                               i, f, qs, ln, cl >>

a_app(self) == /\ pc[self] = "a_app"
               /\ IF Len(dq) >= Cap
                     THEN /\ trueOverflow' = TRUE
                     ELSE /\ TRUE
                          /\ UNCHANGED trueOverflow
               /\ IF Prog[self][i[self]] = "f"
                     THEN /\ dq' = AppR(dq, <<self, i[self]>>)
                     ELSE /\ dq' = AppL(dq, <<self, i[self]>>)
               /\ applied' = Append(applied, <<Prog[self][i[self]], <<self, i[self]>>>>)
               /\ pc' = [pc EXCEPT ![self] = "a_c1"]
               /\ UNCHANGED << tokens, dispatched, fullSeen, i, f, qs, ln, cl >>

a_rot(self) == /\ pc[self] = "a_rot"
               /\ dq' = Rot1(dq)
               /\ pc' = [pc EXCEPT ![self] = "a_app2"]
               /\ UNCHANGED << tokens, dispatched, applied, fullSeen, 
                               trueOverflow, i, f, qs, ln, cl >>

a_app2(self) == /\ pc[self] = "a_app2"
                /\ IF Len(dq) >= Cap
                      THEN /\ trueOverflow' = TRUE
                      ELSE /\ TRUE
                           /\ UNCHANGED trueOverflow
                /\ dq' = AppR(dq, <<self, i[self]>>)
                /\ applied' = Append(applied, <<"f", <<self, i[self]>>>>)
                /\ pc' = [pc EXCEPT ![self] = "a_c1"]
                /\ UNCHANGED << tokens, dispatched, fullSeen, i, f, qs, ln, cl >>

a_drop(self) == /\ pc[self] = "a_drop"
                /\ applied' = Append(applied, <<"dropped", <<self, i[self]>>>>)
                /\ pc' = [pc EXCEPT ![self] = "a_c1"]
                /\ UNCHANGED << dq, tokens, dispatched, fullSeen, trueOverflow, 
                                i, f, qs, ln, cl >>

a_c1(self) == /\ pc[self] = "a_c1"
              /\ qs' = [qs EXCEPT ![self] = tokens]
              /\ pc' = [pc EXCEPT ![self] = "a_c2"]
              /\ UNCHANGED << dq, tokens, dispatched, applied, fullSeen, 
                              trueOverflow, i, f, ln, cl >>

a_c2(self) == /\ pc[self] = "a_c2"
              /\ ln' = [ln EXCEPT ![self] = Len(dq)]
              /\ IF qs[self] < ln'[self]
                    THEN /\ pc' = [pc EXCEPT ![self] = "r_q"]
                    ELSE /\ pc' = [pc EXCEPT ![self] = "a_next"]
              /\ UNCHANGED << dq, tokens, dispatched, applied, fullSeen, 
                              trueOverflow, i, f, qs, cl >>

r_q(self) == /\ pc[self] = "r_q"
             /\ qs' = [qs EXCEPT ![self] = tokens]
             /\ pc' = [pc EXCEPT ![self] = "r_l"]
             /\ UNCHANGED << dq, tokens, dispatched, applied, fullSeen, 
                             trueOverflow, i, f, ln, cl >>

r_l(self) == /\ pc[self] = "r_l"
             /\ ln' = [ln EXCEPT ![self] = Len(dq)]
             /\ IF qs[self] # ln'[self]
                   THEN /\ pc' = [pc EXCEPT ![self] = "r_put"]
                   ELSE /\ pc' = [pc EXCEPT ![self] = "a_next"]
             /\ UNCHANGED << dq, tokens, dispatched, applied, fullSeen, 
                             trueOverflow, i, f, qs, cl >>

r_put(self) == /\ pc[self] = "r_put"
               /\ tokens < Cap
               /\ tokens' = tokens + 1
               /\ pc' = [pc EXCEPT ![self] = "r_q"]
               /\ UNCHANGED << dq, dispatched, applied, fullSeen, trueOverflow, 
                               i, f, qs, ln, cl >>

x_len(self) == /\ pc[self] = "x_len"
               /\ f' = [f EXCEPT ![self] = (Len(dq) >= Cap)]
               /\ IF f'[self]
                     THEN /\ fullSeen' = TRUE
                          /\ pc' = [pc EXCEPT ![self] = "x_rot"]
                     ELSE /\ pc' = [pc EXCEPT ![self] = "x_app"]
                          /\ UNCHANGED fullSeen
               /\ UNCHANGED << dq, tokens, dispatched, applied, trueOverflow, 
                               i, qs, ln, cl >>

x_rot(self) == /\ pc[self] = "x_rot"
               /\ dq' = Rot1(dq)
               /\ pc' = [pc EXCEPT ![self] = "x_app"]
               /\ UNCHANGED << tokens, dispatched, applied, fullSeen, 
                               trueOverflow, i, f, qs, ln, cl >>

x_app(self) == /\ pc[self] = "x_app"
               /\ IF Len(dq) >= Cap
                     THEN /\ trueOverflow' = TRUE
                     ELSE /\ TRUE
                          /\ UNCHANGED trueOverflow
               /\ dq' = AppR(dq, <<self, i[self]>>)
               /\ applied' = Append(applied, <<"f", <<self, i[self]>>>>)
               /\ pc' = [pc EXCEPT ![self] = "y_put"]
               /\ UNCHANGED << tokens, dispatched, fullSeen, i, f, qs, ln, cl >>

x_appl(self) == /\ pc[self] = "x_appl"
                /\ IF Len(dq) >= Cap
                      THEN /\ trueOverflow' = TRUE
                           /\ fullSeen' = TRUE
                      ELSE /\ TRUE
                           /\ UNCHANGED << fullSeen, trueOverflow >>
                /\ dq' = AppL(dq, <<self, i[self]>>)
                /\ applied' = Append(applied, <<"l", <<self, i[self]>>>>)
                /\ pc' = [pc EXCEPT ![self] = "y_put"]
                /\ UNCHANGED << tokens, dispatched, i, f, qs, ln, cl >>

poster(self) == p_loop(self) \/ a_next(self) \/ y_put(self) \/ y_q(self)
                   \/ y_l(self) \/ a_full(self) \/ a_put(self)
                   \/ a_app(self) \/ a_rot(self) \/ a_app2(self)
                   \/ a_drop(self) \/ a_c1(self) \/ a_c2(self) \/ r_q(self)
                   \/ r_l(self) \/ r_put(self) \/ x_len(self)
                   \/ x_rot(self) \/ x_app(self) \/ x_appl(self)

c_get == /\ pc["C"] = "c_get"
         /\ tokens > 0
         /\ tokens' = tokens - 1
         /\ pc' = [pc EXCEPT !["C"] = "c_len"]
         /\ UNCHANGED << dq, dispatched, applied, fullSeen, trueOverflow, i, f, 
                         qs, ln, cl >>

c_len == /\ pc["C"] = "c_len"
         /\ cl' = Len(dq)
         /\ IF cl' >= 1
               THEN /\ pc' = [pc EXCEPT !["C"] = "c_peek"]
               ELSE /\ pc' = [pc EXCEPT !["C"] = "c_get"]
         /\ UNCHANGED << dq, tokens, dispatched, applied, fullSeen, 
                         trueOverflow, i, f, qs, ln >>

c_peek == /\ pc["C"] = "c_peek"
          /\ TRUE
          /\ pc' = [pc EXCEPT !["C"] = "n_len"]
          /\ UNCHANGED << dq, tokens, dispatched, applied, fullSeen, 
                          trueOverflow, i, f, qs, ln, cl >>

n_len == /\ pc["C"] = "n_len"
         /\ cl' = Len(dq)
         /\ IF cl' # 0
               THEN /\ pc' = [pc EXCEPT !["C"] = "n_pop"]
               ELSE /\ pc' = [pc EXCEPT !["C"] = "c_get"]
         /\ UNCHANGED << dq, tokens, dispatched, applied, fullSeen, 
                         trueOverflow, i, f, qs, ln >>

n_pop == /\ pc["C"] = "n_pop"
         /\ dispatched' = Append(dispatched, Head(dq))
         /\ dq' = Tail(dq)
         /\ pc' = [pc EXCEPT !["C"] = "c_get"]
         /\ UNCHANGED << tokens, applied, fullSeen, trueOverflow, i, f, qs, ln, 
                         cl >>

consumer == c_get \/ c_len \/ c_peek \/ n_len \/ n_pop

Next == consumer
           \/ (\E self \in Posters: poster(self))

Spec == Init /\ [][Next]_vars

\* END TRANSLATION

PostersDone == \A p \in Posters : pc[p] = "Done"
Idle        == pc["C"] = "c_get"
Ids(s)      == {s[k] : k \in 1..Len(s)}
IsPrefix(a, b) == Len(a) <= Len(b) /\ SubSeq(b, 1, Len(a)) = a

TypeOK      == Len(dq) <= Cap /\ tokens <= Cap                                   \* C16: bounded
NoLostWake  == (PostersDone /\ Idle /\ tokens = 0) => dq = <<>>                  \* C04: no lost wake-up
AtMostOnce  == \A a, b \in 1..Len(dispatched) : a # b => dispatched[a] # dispatched[b]
(* the order an atomic deque gives when driven by the operations in the order they took effect *)
RECURSIVE Ideal(_, _)
Ideal(ops, acc) == IF ops = <<>> THEN acc
                   ELSE IF Head(ops)[1] = "f" THEN Ideal(Tail(ops), Append(acc, Head(ops)[2]))
                   ELSE IF Head(ops)[1] = "l" THEN Ideal(Tail(ops), <<Head(ops)[2]>> \o acc)
                   ELSE Ideal(Tail(ops), acc)
(* outside the overflow regime nothing is lost or reordered: what was dispatched followed by *)
(* what is pending is exactly what an atomic deque would hold (C04)                          *)
RECURSIVE Removed(_, _)
Removed(s, d) == IF s = <<>> THEN <<>> ELSE IF Head(s) \in d THEN Removed(Tail(s), d) ELSE <<Head(s)>> \o Removed(Tail(s), d)
NoneLost    == (~fullSeen /\ ~trueOverflow) =>
                 /\ \A k \in 1..Len(applied) : applied[k][1] # "dropped"
                 /\ Ids(dispatched) \cup Ids(dq) = {applied[k][2] : k \in 1..Len(applied)}
FifoOrder   == (~fullSeen /\ ~trueOverflow /\ \A k \in 1..Len(applied) : applied[k][1] = "f")
                 => IsPrefix(dispatched, [k \in 1..Len(applied) |-> applied[k][2]])
PendingOrder == (~fullSeen /\ ~trueOverflow) => dq = Removed(Ideal(applied, <<>>), Ids(dispatched))
NewKept     == \A k \in 1..Len(applied) : applied[k][1] # "dropped"              \* C16: a post never loses the NEW event
(* liveness (C05), under weak fairness of every thread *)
PostersFinish  == <>PostersDone
Quiescence     == <>[](PostersDone => dq = <<>>)
FairSpec == Spec /\ \A p \in Posters : WF_vars(poster(p)) /\ WF_vars(consumer)
(* not a property: `tlc -simulate` with this "invariant" stops at the first quiescent state and *)
(* -dumpTrace gives one complete behaviour to replay into the code (harness/aodrive.py)      *)
Trap == ~(PostersDone /\ Idle /\ tokens = 0)
NoHist == <<pc, dq, tokens, i, f, qs, ln, cl>>
ProgFF == [p \in Posters |-> <<"f", "f">>]
ProgF  == [p \in Posters |-> <<"f">>]
ProgFL == [p \in Posters |-> <<"f", "l">>]
=============================================================================
