------------------------------- MODULE HsmMC -------------------------------
(* Model-checking harness for Hsm.tla: every chart table over N states and NSigs         *)
(* signals (all trees, all initial-transition maps, all reaction tables, a few side-     *)
(* effect tables) and every sequence of at most Depth public calls.                      *)
EXTENDS Hsm
CONSTANTS N, NSigs, Cap, Depth, Host

Sigs == SubSeq(<<"A", "B", "C">>, 1, NSigs)
Kinds == {<<"none", 0>>, <<"unh", 0>>, <<"hook", 0>>} \cup {<<"tran", t>> : t \in 1..N}
InitsFor(p) == {i \in [1..N -> 0..N] : \A s \in 1..N : i[s] = 0 \/ i[s] \in PDesc(p, s)}
EffChoices == { <<>>,
                << <<1, "ENTRY_SIGNAL", << <<"post_fifo", "A">> >> >> >>,
                << <<N, "A", << <<"defer", "A">>, <<"recall">> >> >> >>,
                << <<1, "EXIT_SIGNAL", << <<"post_lifo", "A">>, <<"scribble", "x">> >> >> >> }
Charts == { [n |-> N, par |-> p, init |-> i, sigs |-> Sigs, react |-> rc, eff |-> ef, cap |-> Cap,
             spy_ring |-> 4, trc_ring |-> 2, live_spy |-> TRUE, live_trace |-> TRUE, host |-> Host,
             spied |-> TRUE, bad |-> <<>>, build |-> "dyn", reg |-> <<>>] :
            p \in TreesN(N, N), i \in UNION {InitsFor(pp) : pp \in TreesN(N, N)}, rc \in [1..N -> [1..NSigs -> Kinds]], ef \in EffChoices }
GoodCharts == {c \in Charts : c.init \in InitsFor(c.par)}

MCInit == \E c \in GoodCharts : Init0(c)
MCNext ==
  \/ \E S \in 1..N : Start(S, <<>>)
  \/ \E sg \in SeqSet(Sigs) : Dispatch(sg, <<>>)
  \/ NextRtc(<<>>)
  \/ \E sg \in SeqSet(Sigs) : \E k \in {"post_fifo", "post_lifo", "defer"} : External(<<k, sg>>)
  \/ External(<<"recall">>)
  \/ \E X \in 0..N : IsIn(X, <<>>) \/ ChildState(X, <<>>)
MCSpec == MCInit /\ [][MCNext]_vars
Bound == TLCGet("level") <= Depth
(* C22: queries change nothing but their result and the spy of the current step *)
QueriesPure == [][(\E X \in 0..N : IsIn(X, <<>>) \/ ChildState(X, <<>>))
                    => UNCHANGED <<chart, started, cur, q, dq, nid, full, trc, hist>>]_vars
=============================================================================
