------------------------------ MODULE FabricMC ------------------------------
(* Model-checking harness for Fabric.tla: up to MaxSub subscribe calls (repeats included),   *)
(* two publishers whose publish calls overlap (each call = call, put lifo, put fifo, return),*)
(* delivery threads that lag arbitrarily, start/stop/clear at any time.                      *)
EXTENDS Fabric
CONSTANTS MaxSub, MaxPub
Queues == {"q0", "q1"}
Pubs   == {1, 2}
VARIABLES nsub, npub,
          pub,      \* [publisher] -> <<>> (idle) or <<id, signal, priority, stage>>, stage 1..3
          todo,     \* [kind] -> client queues the in-flight event still has to reach
          nthr,     \* [kind] -> number of delivery threads
          cnt       \* {<<id, q, kind>>} delivered MORE than once (must stay empty)
mvars == <<fvars, nsub, npub, pub, todo, nthr, cnt>>
Empty == [k \in Kinds |-> <<>>]

MCInit == FInit /\ nsub = 0 /\ npub = 0 /\ pub = [p \in Pubs |-> <<>>] /\ todo = Empty /\ nthr = [k \in Kinds |-> 0] /\ cnt = {}

DoSub == /\ nsub < MaxSub /\ nsub' = nsub + 1
         /\ \E q \in Queues, s \in Sigs, k \in Kinds : Subscribe(q, s, k)
         /\ UNCHANGED <<npub, pub, todo, nthr, cnt>>
PubStep(p) ==
  \/ /\ pub[p] = <<>> /\ npub < MaxPub /\ npub' = npub + 1
     /\ \E s \in Sigs, pr \in {1, 2} : pub' = [pub EXCEPT ![p] = <<npub + 1, s, pr, 1>>]
     /\ PubCall(npub + 1) /\ UNCHANGED <<nsub, todo, nthr, cnt>>
  \/ /\ pub[p] # <<>> /\ pub[p][4] = 1 /\ Put("lifo", pub[p][1], pub[p][3], pub[p][2])
     /\ pub' = [pub EXCEPT ![p][4] = 2] /\ UNCHANGED <<nsub, npub, todo, nthr, cnt>>
  \/ /\ pub[p] # <<>> /\ pub[p][4] = 2 /\ Put("fifo", pub[p][1], pub[p][3], pub[p][2])
     /\ pub' = [pub EXCEPT ![p][4] = 3] /\ UNCHANGED <<nsub, npub, todo, nthr, cnt>>
  \/ /\ pub[p] # <<>> /\ pub[p][4] = 3 /\ PubRet(pub[p][1])
     /\ pub' = [pub EXCEPT ![p] = <<>>] /\ UNCHANGED <<nsub, npub, todo, nthr, cnt>>
Take(k) == /\ nthr[k] >= 1 /\ inflight[k] = <<>> /\ pq[k] # <<>>
           /\ \E x \in SeqSet(pq[k]) : GetOK(k, x[3]) /\ Get(k, x) /\ todo' = [todo EXCEPT ![k] = subs[k][x[4]]]
           /\ UNCHANGED <<nsub, npub, pub, nthr, cnt>>
Hand(k) == /\ inflight[k] # <<>>
           /\ IF todo[k] = <<>>
              THEN inflight' = [inflight EXCEPT ![k] = <<>>] /\ UNCHANGED <<subs, pq, pn, delivered, owed, running, returned, hb, todo, cnt>>
              ELSE /\ DeliverOK(k, Head(todo[k]), inflight[k][1]) /\ Deliver(k, Head(todo[k]), inflight[k][1])
                   /\ cnt' = cnt \cup (IF <<inflight[k][1], Head(todo[k]), k>> \in delivered THEN {<<inflight[k][1], Head(todo[k]), k>>} ELSE {})
                   /\ todo' = [todo EXCEPT ![k] = Tail(@)]
           /\ UNCHANGED <<nsub, npub, pub, nthr>>
DoStart == /\ nthr' = [k \in Kinds |-> IF nthr[k] = 0 THEN 1 ELSE nthr[k]] /\ Started /\ UNCHANGED <<nsub, npub, pub, todo, cnt>>
DoStop  == /\ \A k \in Kinds : inflight[k] = <<>>
           /\ nthr' = [k \in Kinds |-> 0] /\ StopCalled /\ UNCHANGED <<nsub, npub, pub, todo, cnt>>
DoClear == /\ subs' = [k \in Kinds |-> [s \in Sigs |-> <<>>]] /\ pq' = Empty /\ owed' = owed \cap delivered
           /\ UNCHANGED <<pn, inflight, delivered, running, returned, hb, nsub, npub, pub, todo, nthr, cnt>>
MCNext == DoSub \/ (\E p \in Pubs : PubStep(p)) \/ (\E k \in Kinds : Take(k) \/ Hand(k)) \/ DoStart \/ DoStop \/ DoClear
MCSpec == MCInit /\ [][MCNext]_mvars /\ \A k \in Kinds : WF_mvars(Take(k)) /\ WF_mvars(Hand(k))

OneThreadPerKind == \A k \in Kinds : nthr[k] <= 1
NeverTwice == cnt = {}
Quiet == (\A p \in Pubs : pub[p] = <<>>) /\ (\A k \in Kinds : pq[k] = <<>> /\ inflight[k] = <<>>)
QuiescentAllDelivered == (Quiet /\ running) => AllDelivered
DeliveredWasOwedOrLate == NeverTwice
(* equal priorities come out in publish order: when an event is taken, nothing published before it with the same priority still waits *)
EventuallyDelivered == []((running /\ ~AllDelivered) => <>(AllDelivered \/ ~running))
=============================================================================
