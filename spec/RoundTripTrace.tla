--------------------------- MODULE RoundTripTrace ---------------------------
(* C26: Event.loads(Event.dumps(e)).  The registry half is decided here: the result carries the *)
(* same name and the number this process binds to that name - the old one if the name was      *)
(* known, the next free one otherwise (Signals.tla's append).  The payload half is an equality *)
(* of the canonical JSON texts (hex) logged by the harness before and after the round trip.    *)
EXTENDS Naturals, Sequences, FiniteSets, TLC, Json, IOUtils, TLCExt
All == ndJsonDeserialize(IOEnv.TRACE_FILE)
VARIABLES tid, l, bad, reg, size
T == All[tid]
E == T.ev[l]      \* [name, name_after, number_after, payload_hex_before, payload_hex_after, outcome]
Chk(ok, name) == IF ok THEN {} ELSE {name}
TInit == tid \in DOMAIN All /\ l = 1 /\ bad = {} /\ reg = {<<T.known[i][1], T.known[i][2]>> : i \in 1..Len(T.known)} /\ size = T.size
NumberOf(n) == IF \E p \in reg : p[1] = n THEN (CHOOSE p \in reg : p[1] = n)[2] ELSE size + 1
Step == /\ reg' = reg \cup {<<E[1], NumberOf(E[1])>>}
        /\ size' = IF \E p \in reg : p[1] = E[1] THEN size ELSE size + 1
        /\ bad' = Chk(E[6] = "ok", "Error") \cup Chk(E[2] = E[1], "Name") \cup Chk(E[3] = NumberOf(E[1]), "Number")
                  \cup Chk(E[4] = E[5], "Payload")
TNext == /\ bad = {} /\ l <= Len(T.ev) /\ tid' = tid /\ l' = l + 1 /\ Step
         /\ IF bad' # {} THEN PrintT(ToJson([tid |-> T.tid, at |-> l, bad |-> bad', ev |-> E]))
            ELSE IF l = Len(T.ev) THEN PrintT(ToJson([tid |-> T.tid, done |-> l])) ELSE TRUE
TSpec == TInit /\ [][TNext]_<<tid, l, bad, reg, size>>
=============================================================================
