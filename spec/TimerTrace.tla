------------------------------ MODULE TimerTrace ------------------------------
(* C10 / C11 / C12 / C31: timed posts, cancellation, stop() and the capacity of tracked        *)
(* sources, in virtual integer time.  Recorded executions of the real ActiveObject             *)
(* (harness/sysdrive.py) are validated event by event against the rules below; total verdicts. *)
(*                                                                                            *)
(* A source created at time t0 with period p, times n and deferral d posts at t0 + p*(k + d),  *)
(* k = 0, 1, ... (n of them, or for ever when n = 0), to the back (fifo) or front (lifo) of    *)
(* its active object's queue, until it is cancelled or its active object is stopped.           *)
EXTENDS Naturals, Sequences, FiniteSets, TLC, Json, IOUtils, TLCExt
All == ndJsonDeserialize(IOEnv.TRACE_FILE)
VARIABLES tid, l, bad,
          src,        \* sequence of sources: [ao, kind, sig, p, n, d, t0, fired, cancelled, rejected, state]
          stopped,    \* AOs whose stop() has returned (or was called from their own handler)
          stopcalled,
          ccall,      \* caller -> position in the trace of its pending cancel_events call (0: none)
          slack       \* total of the delays injected so far ("stall": a runnable thread was held back while the clock went on)
vars == <<tid, l, bad, src, stopped, stopcalled, slack, ccall>>
T == All[tid]
E == T.ev[l]
Time == E[Len(E)]
Chk(ok, name) == IF ok THEN {} ELSE {name}
TInit == tid \in DOMAIN All /\ l = 1 /\ bad = {} /\ src = <<>> /\ stopped = {} /\ stopcalled = {} /\ slack = 0 /\ ccall = <<>>
(* a source whose post overlapped a cancel_events call for its signal name may or may not have been stopped by it (`maybe`): *)
(* the call may be ordered before or after the post.  Such a source is owed nothing until a later cancellation settles it.   *)
TrackedLow(ao) == Cardinality({i \in 1..Len(src) : src[i].ao = ao /\ src[i].state = "accepted" /\ ~src[i].removed /\ ~src[i].maybe})
TrackedHigh(ao) == Cardinality({i \in 1..Len(src) : src[i].ao = ao /\ src[i].state \in {"accepted", "calling"} /\ ~src[i].removed})
Who == E[Len(E) - 1]
CallAt(w) == IF w \in DOMAIN ccall THEN ccall[w] ELSE 0

Step ==
  CASE E[1] = "call" /\ E[2] = "tpost" ->
         /\ src' = Append(src, [ao |-> E[3], kind |-> E[5], sig |-> E[6], p |-> E[7], n |-> E[8], d |-> E[9], t0 |-> Time,
                                fired |-> 0, cancelled |-> FALSE, removed |-> FALSE, halted |-> FALSE, state |-> "calling", maybe |-> FALSE, acc |-> 0,
                                by |-> E[Len(E) - 1], early |-> E[3] \notin stopcalled])
         /\ bad' = Chk(E[4] = Len(src) + 1, "Harness") /\ UNCHANGED <<stopped, stopcalled>>
    [] E[1] = "ret" /\ E[2] = "tpost" ->
         LET i == E[4]
             full == TrackedLow(src[i].ao) >= T.tcap
             room == TrackedHigh(src[i].ao) - 1 < T.tcap       \* not counting this post itself
         (* `early`: the post had RETURNED before stop() was called (a post that overlaps stop() may be ordered after it) *)
         IN /\ src' = [src EXCEPT ![i].state = IF E[5] = "ok" THEN "accepted" ELSE "rejected", ![i].acc = l,
                                  ![i].early = src[i].ao \notin stopcalled]
            /\ bad' = Chk(full => E[5] = "raised:ActiveObjectOutOfPostedEventResources", "ShouldReject")           \* C31
                   \cup Chk(room => E[5] = "ok", "ShouldAccept")
            /\ UNCHANGED <<stopped, stopcalled>>
    [] E[1] = "qapp" /\ E[8] # 0 ->
         LET i == E[8]
             s == src[i]
         IN /\ src' = [src EXCEPT ![i].fired = @ + 1]
            /\ bad' = Chk(s.state # "rejected", "RejectedFired")                                                     \* C31
                   \cup Chk(~s.cancelled, "FiredAfterCancel")                                                        \* C11
                   \cup Chk(~s.halted, "FiredAfterStop")        \* C12: a source that existed when stop() returned
                   \cup Chk(s.n = 0 \/ s.fired < s.n, "TooManyFires")                                               \* C10
                   (* never early; late by no more than the delays injected so far (exactly on time when there were none) *)
                   \cup Chk(Time >= s.t0 + s.p * (s.fired + s.d) /\ Time <= s.t0 + s.p * (s.fired + s.d) + slack, "WrongTime")
                   \cup Chk(E[5] = (IF s.kind = "fifo" THEN "append" ELSE "appendleft"), "WrongEnd")
                   \cup Chk(E[2] = s.ao /\ E[4] = s.sig, "WrongTarget")
            /\ UNCHANGED <<stopped, stopcalled>>
    [] E[1] = "ret" /\ E[2] = "cancel" ->
         /\ src' = [i \in 1..Len(src) |-> IF i = E[4] THEN [src[i] EXCEPT !.cancelled = TRUE, !.removed = TRUE] ELSE src[i]]
         /\ bad' = {} /\ UNCHANGED <<stopped, stopcalled>>
    [] E[1] = "call" /\ E[2] = "cancels" ->
         bad' = {} /\ UNCHANGED <<src, stopped, stopcalled>>
    [] E[1] = "ret" /\ E[2] = "cancels" ->
         (* owed: every source of that name whose post had returned before this call was made; a post that overlaps the call *)
         (* may be ordered either way                                                                                         *)
         /\ src' = [i \in 1..Len(src) |->
                     IF src[i].ao = E[3] /\ src[i].sig = E[4] /\ src[i].state = "accepted" /\ src[i].acc < CallAt(Who)
                     THEN [src[i] EXCEPT !.cancelled = TRUE, !.removed = TRUE]
                     ELSE IF src[i].ao = E[3] /\ src[i].sig = E[4] /\ src[i].state \in {"accepted", "calling"} /\ ~src[i].cancelled
                     THEN [src[i] EXCEPT !.maybe = TRUE] ELSE src[i]]
         /\ bad' = Chk(CallAt(Who) > 0, "Harness") /\ UNCHANGED <<stopped, stopcalled>>
    [] E[1] = "call" /\ E[2] = "stop" -> stopcalled' = stopcalled \cup {E[3]} /\ bad' = {} /\ UNCHANGED <<src, stopped>>
    [] E[1] = "ret" /\ E[2] = "stop" ->
         /\ stopped' = stopped \cup {E[3]}
         (* stop() owes the cancellation of every source started before it was called, and of those the object's own  *)
         (* handlers started before its thread ended (stop waits for the thread); a post made by ANOTHER thread while   *)
         (* stop() runs may be ordered after it                                                                       *)
         /\ src' = [i \in 1..Len(src) |-> IF src[i].ao = E[3] /\ src[i].state = "accepted" /\ (src[i].early \/ src[i].by = "handler")
                                           THEN [src[i] EXCEPT !.halted = TRUE, !.removed = TRUE] ELSE src[i]]
         /\ bad' = {} /\ UNCHANGED stopcalled
    [] E[1] = "disp" -> bad' = Chk(E[2] \notin stopped, "DispatchAfterStop") /\ UNCHANGED <<src, stopped, stopcalled>>   \* C12
    [] OTHER -> bad' = {} /\ UNCHANGED <<src, stopped, stopcalled>>

(* what a source that was left alone must have done by the horizon H *)
Due(s, H) == LET c == IF H < s.t0 + s.p * s.d THEN 0 ELSE ((H - s.t0 - s.p * s.d) \div s.p) + 1
             IN IF s.n = 0 THEN c ELSE IF c < s.n THEN c ELSE s.n
Alone(s) == s.state = "accepted" /\ ~s.cancelled /\ ~s.halted /\ ~s.maybe /\ s.ao \notin stopcalled
Final ==
       Chk(T.end.outcome # "bound", "NoProgress") \cup Chk(T.end.outcome # "error", "Error")
  \cup Chk(T.end.outcome # "quiescent" \/ T.end.drivers_done, "Hang")
  \cup Chk(\A i \in 1..Len(src) : Alone(src[i]) => /\ src[i].fired <= Due(src[i], T.end.horizon)
                                                       /\ src[i].fired >= Due(src[i], IF T.end.horizon >= slack THEN T.end.horizon - slack ELSE 0), "MissingFires")      \* C10, C11 (others keep running)
  \cup Chk(\A a \in stopped : ("ao_" \o a) \notin {T.end.alive[k] : k \in 1..Len(T.end.alive)}, "ThreadAlive")       \* C12
  \cup Chk(\A a \in {T.aos[k] : k \in 1..Len(T.aos)} \ stopcalled :
             ("ao_" \o a) \in {T.end.alive[k] : k \in 1..Len(T.end.alive)} \/ a \notin {T.started[k] : k \in 1..Len(T.started)}, "OtherStopped")
  \cup Chk("fab_fifo" \in {T.end.alive[k] : k \in 1..Len(T.end.alive)} \/ T.started = <<>>, "FabricStopped")

TNext ==
  /\ bad = {} /\ l <= Len(T.ev) + 1 /\ tid' = tid /\ l' = l + 1
  /\ IF l <= Len(T.ev) THEN Step ELSE bad' = Final /\ UNCHANGED <<src, stopped, stopcalled>>
  /\ slack' = IF l <= Len(T.ev) /\ E[1] = "stall" THEN slack + E[3] ELSE slack
  /\ ccall' = IF l <= Len(T.ev) /\ E[1] = "call" /\ E[2] = "cancels" THEN [w \in DOMAIN ccall \cup {Who} |-> IF w = Who THEN l ELSE ccall[w]] ELSE ccall
  /\ IF bad' # {} THEN PrintT(ToJson([tid |-> T.tid, at |-> l, bad |-> bad', ev |-> IF l <= Len(T.ev) THEN E ELSE <<>>,
                                      fired |-> [i \in 1..Len(src) |-> src[i].fired]]))
     ELSE IF l = Len(T.ev) + 1 THEN PrintT(ToJson([tid |-> T.tid, done |-> l, fires |-> [i \in 1..Len(src) |-> src[i].fired]])) ELSE TRUE
TSpec == TInit /\ [][TNext]_vars
=============================================================================
