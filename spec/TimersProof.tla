----------------------------- MODULE TimersProof -----------------------------
(* C11 / C12 for ANY number of timed sources and ANY number of posts per source: a machine-checked (TLAPS) proof that under the    *)
(* locked protocol of Timers.tla (the flag test + post of a timer thread and the clearing of the flag by a canceller hold one     *)
(* lock) no source posts after the cancellation of that source has returned.                                                       *)
EXTENDS TimersInv, TLAPS

THEOREM InitInv == Init => Inv
  BY LockedVariant, NamesApart DEF Init, Inv, TLabels, Holding, ProcSet

THEOREM NextInv == Inv /\ [Next]_vars => Inv'
<1> SUFFICES ASSUME Inv, [Next]_vars PROVE Inv'
  OBVIOUS
<1> USE LockedVariant, NamesApart DEF Locked, TLabels, Holding, ProcSet
<1>1. ASSUME NEW self \in Timers, t_flag(self) PROVE Inv'
  BY <1>1 DEF Inv, t_flag
<1>2. ASSUME NEW self \in Timers, t_sleep(self) PROVE Inv'
  BY <1>2 DEF Inv, t_sleep
<1>3. ASSUME NEW self \in Timers, t_lock(self) PROVE Inv'
  BY <1>3 DEF Inv, t_lock
<1>4. ASSUME NEW self \in Timers, t_chk(self) PROVE Inv'
  BY <1>4 DEF Inv, t_chk
<1>5. ASSUME NEW self \in Timers, t_rel0(self) PROVE Inv'
  BY <1>5 DEF Inv, t_rel0
<1>6. ASSUME NEW self \in Timers, t_post(self) PROVE Inv'
  BY <1>6 DEF Inv, t_post
<1>7. ASSUME NEW self \in Timers, t_fin(self) PROVE Inv'
  BY <1>7 DEF Inv, t_fin
<1>8. ASSUME NEW self \in Timers, t_rel(self) PROVE Inv'
  BY <1>8 DEF Inv, t_rel
<1>9. CASE c_loop
  BY <1>9 DEF Inv, c_loop
<1>10. CASE Terminating
  BY <1>10 DEF Inv, Terminating, vars
<1>11. CASE UNCHANGED vars
  BY <1>11 DEF Inv, vars
<1> QED
  BY <1>1, <1>2, <1>3, <1>4, <1>5, <1>6, <1>7, <1>8, <1>9, <1>10, <1>11 DEF Next, timer, canceller

THEOREM Safety == Spec => []NoPostAfterCancelReturned
<1>1. Inv => NoPostAfterCancelReturned
  BY DEF Inv, NoPostAfterCancelReturned
<1> QED
  BY InitInv, NextInv, <1>1, PTL DEF Spec
=============================================================================
