---------------------------- MODULE SignalsProof ----------------------------
(* C25 for ANY number of threads, ANY programs of registrations and ANY number of built-in signals: a machine-checked (TLAPS)    *)
(* proof that under the locked registration protocol of Signals.tla the registry stays one-to-one, user signals get numbers above *)
(* the built-ins, and no thread ever observes a name with two numbers or a number with two names.                                 *)
EXTENDS SignalsInv, TLAPS

THEOREM InitInv == Init => Inv
  BY LockedVariant, BuiltinsNat, FreeNotAThread DEF Init, Inv, Labels, Holding, ProcSet, Name

THEOREM NextInv == Inv /\ [Next]_vars => Inv'
<1> SUFFICES ASSUME Inv, [Next]_vars PROVE Inv'
  OBVIOUS
<1> USE LockedVariant, BuiltinsNat, FreeNotAThread DEF Locked, Labels, Holding, ProcSet, Name
<1>1. ASSUME NEW self \in Threads, a_loop(self) PROVE Inv'
  BY <1>1 DEF Inv, a_loop
<1>2. ASSUME NEW self \in Threads, a_lock(self) PROVE Inv'
  BY <1>2 DEF Inv, a_lock
<1>3. ASSUME NEW self \in Threads, a_in(self) PROVE Inv'
  BY <1>3 DEF Inv, a_in
<1>4. ASSUME NEW self \in Threads, a_len(self) PROVE Inv'
  BY <1>4 DEF Inv, a_len
<1>5. ASSUME NEW self \in Threads, a_set(self) PROVE Inv'
  <2> DEFINE nm == Prog[self][i[self]]
  <2>1. nm \notin DOMAIN reg /\ ln[self] = size /\ lock = self
    BY <1>5 DEF Inv, a_set
  <2>2. size' = size + 1 /\ reg' = [n \in DOMAIN reg \cup {nm} |-> IF n = nm THEN size + 1 ELSE reg[n]]
    BY <1>5, <2>1 DEF a_set
  <2>3. DOMAIN reg' = DOMAIN reg \cup {nm}
    BY <2>2
  <2>4. \A n \in DOMAIN reg : reg'[n] = reg[n]
    BY <2>1, <2>2
  <2>5. reg'[nm] = size + 1
    BY <2>2
  <2>6. pc' = [pc EXCEPT ![self] = "a_rel"] /\ UNCHANGED << lock, seen, i, present, ln >>
    BY <1>5 DEF a_set
  <2>7. \A t \in Threads : Prog[t][i'[t]] = Prog[t][i[t]]
    BY <2>6
  <2>8. \A t \in Threads : t # self => pc'[t] = pc[t] /\ ~Holding(t)
    BY <2>1, <2>6 DEF Inv
  <2>9. pc'[self] = "a_rel" /\ pc' \in [Threads -> Labels]
    BY <2>6 DEF Inv
  <2>10. size \in Nat /\ size' \in Nat
    BY <2>2 DEF Inv
  <2>11. \A n \in DOMAIN reg' : reg'[n] \in Nat /\ Builtins < reg'[n] /\ reg'[n] <= size'
    BY <2>2, <2>3, <2>4, <2>5, <2>10 DEF Inv
  <2>12. \A a, b \in DOMAIN reg' : a # b => reg'[a] # reg'[b]
    BY <2>1, <2>2, <2>3, <2>4, <2>5, <2>10 DEF Inv
  <2>13. reg' = [n \in DOMAIN reg' |-> reg'[n]]
    BY <2>2
  <2>14. \A p \in seen' : \E n \in DOMAIN reg' : p = <<n, reg'[n]>>
    BY <2>3, <2>4, <2>6 DEF Inv
  <2>15. \A t \in Threads : Holding(t)' <=> lock' = t
    BY <2>1, <2>6, <2>8, <2>9 DEF Inv
  <2>16. \A t \in Threads : pc'[t] \in {"a_len", "a_set"} => Prog[t][i'[t]] \notin DOMAIN reg'
    BY <2>8, <2>9
  <2>17. \A t \in Threads : pc'[t] = "a_set" => ln'[t] = size'
    BY <2>8, <2>9
  <2>18. \A t \in Threads : pc'[t] \in {"a_rel", "a_use"} => Prog[t][i'[t]] \in DOMAIN reg'
    BY <2>3, <2>7, <2>8, <2>9 DEF Inv
  <2>19. ln' \in [Threads -> Nat] /\ i' \in [Threads -> Nat] /\ present' \in [Threads -> BOOLEAN] /\ lock' \in Threads \cup {"free"}
    BY <2>6 DEF Inv
  <2> HIDE DEF nm
  <2> QED
    BY <2>9, <2>10, <2>11, <2>12, <2>13, <2>14, <2>15, <2>16, <2>17, <2>18, <2>19 DEF Inv
<1>6. ASSUME NEW self \in Threads, a_rel(self) PROVE Inv'
  BY <1>6 DEF Inv, a_rel
<1>7. ASSUME NEW self \in Threads, a_use(self) PROVE Inv'
  BY <1>7 DEF Inv, a_use
<1>8. CASE Terminating
  BY <1>8 DEF Inv, Terminating, vars
<1>9. CASE UNCHANGED vars
  BY <1>9 DEF Inv, vars
<1> QED
  BY <1>1, <1>2, <1>3, <1>4, <1>5, <1>6, <1>7, <1>8, <1>9 DEF Next, th

THEOREM Safety == Spec => [](Injective /\ Positive /\ Stable /\ SeenInjective)
<1>1. Inv => Injective /\ Positive /\ Stable /\ SeenInjective
  BY DEF Inv, Injective, Positive, Stable, SeenInjective
<1> QED
  BY InitInv, NextInv, <1>1, PTL DEF Spec
=============================================================================
