------------------------------ MODULE TSATrace ------------------------------
(* Verdicts on recorded uses of thread-safe attributes (harness/tsadrive.py):                  *)
(*  c27: threads running reads / assignments / augmented assignments of one attribute under a  *)
(*       controlled schedule - no error, no deadlock, lock free at the end, and the final value *)
(*       is the result of SOME serial order of the same statements (computed here);            *)
(*  c28: single statements from the grammar - afterwards no lock is held, nothing was raised   *)
(*       and the values are what plain attributes would give;                                  *)
(*  c29: new / assign / read over several objects - every object has its own value, 0 at first.*)
EXTENDS Naturals, Integers, Sequences, FiniteSets, TLC, Json, IOUtils, TLCExt
All == ndJsonDeserialize(IOEnv.TRACE_FILE)
VARIABLES tid, l
T == All[tid]
Chk(ok, name) == IF ok THEN {} ELSE {name}

(* the state is <<x, y, x2>>: two attributes of one object and the attribute x of a second object of the same class;          *)
(* statement codes (harness/tsadrive.py C27_FORMS): 0 read x, 1 x = v, 2 x += v, 3 x -= v, 4 x *= v, 5 x += y, 6 y = v,         *)
(* 7 y += v, 8 x += v through a nested attribute, 9 x2 += v, 10 x2 = v                                                         *)
Apply(st, val) == CASE st[1] = 0 -> val [] st[1] = 1 -> <<st[2], val[2], val[3]>> [] st[1] = 2 -> <<val[1] + st[2], val[2], val[3]>>
                    [] st[1] = 3 -> <<val[1] - st[2], val[2], val[3]>> [] st[1] = 4 -> <<val[1] * st[2], val[2], val[3]>>
                    [] st[1] = 5 -> <<val[1] + val[2], val[2], val[3]>> [] st[1] = 6 -> <<val[1], st[2], val[3]>>
                    [] st[1] = 7 -> <<val[1], val[2] + st[2], val[3]>> [] st[1] = 8 -> <<val[1] + st[2], val[2], val[3]>>
                    [] st[1] = 9 -> <<val[1], val[2], val[3] + st[2]>> [] st[1] = 10 -> <<val[1], val[2], st[2]>>
RECURSIVE Outs(_, _, _)
Outs(P, idx, val) ==
  LET live == {t \in 1..Len(P) : idx[t] <= Len(P[t])}
  IN IF live = {} THEN {val}
     ELSE UNION {Outs(P, [idx EXCEPT ![t] = @ + 1], Apply(P[t][idx[t]], val)) : t \in live}
Serial(P, init) == Outs(P, [t \in 1..Len(P) |-> 1], init)

V27 == Chk(T.errors = 0, "Error") \cup Chk(T.outcome = "quiescent" /\ T.done, "Deadlock") \cup Chk(T.lock_count = 0, "LockHeld")
       \cup Chk(T.errors # 0 \/ ~T.done \/ T.final \in Serial(T.progs, T.init), "NotSerializable")
V28 == UNION {Chk(T.seq[i][5] = "ok", "Raised") \cup Chk(T.seq[i][6] = 0 /\ T.seq[i][7] = 0, "LockHeld") \cup Chk(T.seq[i][8] = "same", "Value")
              : i \in 1..Len(T.seq)}
RECURSIVE Play(_, _, _)
Play(ops, i, m) ==      \* m: set of <<inst, attr, value>>
  IF i > Len(ops) THEN {}
  ELSE LET o == ops[i]
           Val(inst, attr) == IF \E x \in m : x[1] = inst /\ x[2] = attr THEN (CHOOSE x \in m : x[1] = inst /\ x[2] = attr)[3] ELSE 0
           cur == Val(o[2], o[4])
           (* "aug": `a.attr += b.attr2` - a's new value is a's own old value plus b's own value *)
           new == IF o[1] = "set" THEN o[5] ELSE IF o[1] = "aug" THEN cur + Val(o[7], o[8]) ELSE cur
       IN Chk(o[6] = "ok", "Raised")
          \cup (IF o[1] = "get" THEN Chk(o[5] = cur, "NotItsOwnValue") ELSE {})
          \cup (IF o[1] = "aug" /\ o[6] = "ok" THEN Chk(o[5] = new, "NotItsOwnValue") ELSE {})
          (* "copy": a shallow copy o[2] of the object o[7] starts with the values of the original, and is its own object afterwards *)
          \cup Play(ops, i + 1, IF o[1] \in {"set", "aug"} THEN {x \in m : ~(x[1] = o[2] /\ x[2] = o[4])} \cup {<<o[2], o[4], new>>}
                                ELSE IF o[1] = "copy" /\ o[6] = "ok" THEN m \cup {<<o[2], x[2], x[3]>> : x \in {y \in m : y[1] = o[7]}}
                                ELSE m)
V29 == Play(T.ops, 1, {})
Verdict == CASE T.kind = "c27" -> V27 [] T.kind = "c28" -> V28 [] T.kind = "c29" -> V29
TInit == tid \in DOMAIN All /\ l = 1
TNext == l = 1 /\ l' = 2 /\ tid' = tid /\ PrintT(ToJson([tid |-> T.tid, bad |-> Verdict]))
TSpec == TInit /\ [][TNext]_<<tid, l>>
=============================================================================
