------------------------------ MODULE TimersInv ------------------------------
(* The inductive invariant of the locked variant of Timers.tla (used by TimersProof.tla; checked by TLC on small instances). *)
EXTENDS Timers

ASSUME LockedVariant == Variant = "locked"
ASSUME NamesApart == "free" \notin Timers /\ "cancel" \notin Timers

TLabels == {"t_flag", "t_sleep", "t_lock", "t_chk", "t_rel0", "t_post", "t_fin", "t_rel", "Done"}
Holding(t) == pc[t] \in {"t_chk", "t_rel0", "t_post", "t_fin", "t_rel"}

Inv ==
  /\ \A t \in Timers : pc[t] \in TLabels
  /\ pc["cancel"] \in {"c_loop", "Done"}
  /\ pc = [p \in Timers \cup {"cancel"} |-> pc[p]]
  /\ flag \in [Timers -> BOOLEAN]
  /\ lock \in Timers \cup {"free"}
  /\ returned \subseteq Timers
  /\ todo \subseteq Timers
  /\ ~late
  /\ \A t \in returned : ~flag[t]
  /\ \A t \in Timers : Holding(t) <=> lock = t
  /\ \A t \in Timers : pc[t] = "t_post" => flag[t]
=============================================================================
