------------------------------- MODULE TSAInv -------------------------------
(* The inductive invariant of the repaired (Fixed = TRUE) descriptor protocol of TSA.tla (used by TSAProof.tla; checked by TLC on *)
(* small instances).                                                                                                              *)
EXTENDS TSA

ASSUME FixedVariant == Fixed = TRUE
ASSUME NoneNotAThread == None \notin Threads

Labels == {"loop", "s0", "s_flag", "s_acq", "s_val", "s_at", "s_rel", "nxt", "g_acq", "g_at", "g_cls", "g_ret", "Done"}
Kind(t) == st[t][1]
InAug(t) == pc[t] \in {"g_ret", "s0", "s_flag", "s_acq"} /\ Kind(t) = "aug"
Holds(t) == pc[t] \in {"g_at", "g_cls", "s_val", "s_at", "s_rel"} \/ InAug(t)

Inv ==
  /\ pc \in [Threads -> Labels]
  /\ st = [t \in Threads |-> st[t]]
  /\ flag \in [Threads -> BOOLEAN]
  /\ count \in {0, 1}
  /\ owner \in Threads \cup {None}
  /\ augOwner \in Threads \cup {None}
  /\ ~err
  /\ owner = None <=> count = 0
  /\ \A t \in Threads : Holds(t) <=> owner = t
  /\ \A t \in Threads : InAug(t) <=> augOwner = t
  /\ \A t \in Threads : pc[t] \in {"g_acq", "g_at", "g_cls", "g_ret"} => Kind(t) \in {"read", "aug"}
  /\ \A t \in Threads : pc[t] \in {"s_flag", "s_acq", "s_val", "s_at", "s_rel"} => Kind(t) \in {"set", "aug"}
  /\ \A t \in Threads : pc[t] = "s_acq" => (flag[t] <=> Kind(t) # "aug")
=============================================================================
