----------------------------- MODULE SignalsInv -----------------------------
(* The inductive invariant of the locked variant of Signals.tla (used by SignalsProof.tla; checked by TLC on small instances). *)
EXTENDS Signals

ASSUME LockedVariant == Variant = "locked"
ASSUME BuiltinsNat == Builtins \in Nat
ASSUME FreeNotAThread == "free" \notin Threads

Labels == {"a_loop", "a_lock", "a_in", "a_len", "a_set", "a_rel", "a_use", "Done"}
Holding(t) == pc[t] \in {"a_in", "a_len", "a_set", "a_rel"}
Name(t) == Prog[t][i[t]]

Inv ==
  /\ pc \in [Threads -> Labels]
  /\ size \in Nat /\ Builtins <= size
  /\ ln \in [Threads -> Nat]
  /\ i \in [Threads -> Nat]
  /\ present \in [Threads -> BOOLEAN]
  /\ lock \in Threads \cup {"free"}
  /\ reg = [n \in DOMAIN reg |-> reg[n]]
  /\ \A n \in DOMAIN reg : reg[n] \in Nat /\ Builtins < reg[n] /\ reg[n] <= size
  /\ \A a, b \in DOMAIN reg : a # b => reg[a] # reg[b]
  /\ \A t \in Threads : Holding(t) <=> lock = t
  /\ \A t \in Threads : pc[t] \in {"a_len", "a_set"} => Name(t) \notin DOMAIN reg
  /\ \A t \in Threads : pc[t] = "a_set" => ln[t] = size
  /\ \A t \in Threads : pc[t] \in {"a_rel", "a_use"} => Name(t) \in DOMAIN reg
  /\ \A p \in seen : \E n \in DOMAIN reg : p = <<n, reg[n]>>
=============================================================================
