--------------------------- MODULE SingletonTrace ---------------------------
(* Recorded concurrent first requests of the real SingletonDecorator (harness/utildrive.py):  *)
(* {"tid", "made": number of objects constructed, "got": identities returned, "final": identity stored, "errors": n}. *)
EXTENDS Naturals, Sequences, FiniteSets, TLC, Json, IOUtils, TLCExt
All == ndJsonDeserialize(IOEnv.TRACE_FILE)
VARIABLES tid, l
Chk(ok, name) == IF ok THEN {} ELSE {name}
TInit == tid \in DOMAIN All /\ l = 1
Verdict(T) == Chk(T.made = 1, "TwoInstances") \cup Chk(\A i \in 1..Len(T.got) : T.got[i] = T.final /\ T.got[i] # 0, "DifferentObjects")
              \cup Chk(T.errors = 0, "Error") \cup Chk(T.outcome = "quiescent" /\ T.done, "Hang")
TNext == l = 1 /\ l' = 2 /\ tid' = tid /\ PrintT(ToJson([tid |-> All[tid].tid, bad |-> Verdict(All[tid])]))
TSpec == TInit /\ [][TNext]_<<tid, l>>
=============================================================================
