--------------------------- MODULE SingletonProof ---------------------------
(* C30 for ANY number of threads: a machine-checked (TLAPS) proof that the locked variant of Singleton.tla constructs at most one *)
(* object and hands the same object to every thread.  TLC explores 2 and 3 threads exhaustively; this proof removes the bound.   *)
EXTENDS SingletonInv, TLAPS

THEOREM InitInv == Init => Inv
  BY LockedVariant, FreeNotAThread DEF Init, Inv, Labels, Holding, ProcSet

THEOREM NextInv == Inv /\ [Next]_vars => Inv'
<1> SUFFICES ASSUME Inv, [Next]_vars PROVE Inv'
  OBVIOUS
<1> USE LockedVariant, FreeNotAThread DEF Locked, Labels, Holding, ProcSet
<1>1. ASSUME NEW self \in Threads, s_read(self) PROVE Inv'
  BY <1>1 DEF Inv, s_read
<1>2. ASSUME NEW self \in Threads, s_lock(self) PROVE Inv'
  BY <1>2 DEF Inv, s_lock
<1>3. ASSUME NEW self \in Threads, s_again(self) PROVE Inv'
  BY <1>3 DEF Inv, s_again
<1>4. ASSUME NEW self \in Threads, s_make(self) PROVE Inv'
  BY <1>4 DEF Inv, s_make
<1>5. ASSUME NEW self \in Threads, s_write(self) PROVE Inv'
  BY <1>5 DEF Inv, s_write
<1>6. ASSUME NEW self \in Threads, s_ret(self) PROVE Inv'
  BY <1>6 DEF Inv, s_ret
<1>7. CASE Terminating
  BY <1>7 DEF Inv, Terminating, vars
<1>8. CASE UNCHANGED vars
  BY <1>8 DEF Inv, vars
<1> QED
  BY <1>1, <1>2, <1>3, <1>4, <1>5, <1>6, <1>7, <1>8 DEF Next, th

THEOREM Safety == Spec => [](OneInstance /\ SameForAll)
<1>1. Inv => OneInstance /\ SameForAll
  BY DEF Inv, OneInstance, SameForAll, AllDone
<1> QED
  BY InitInv, NextInv, <1>1, PTL DEF Spec
=============================================================================
