------------------------------- MODULE Fabric -------------------------------
(* The active fabric (activeobject.py: ActiveFabricSource): two registries, two stable      *)
(* priority queues, one delivery thread per kind.  Property-level specification (C06, C08,  *)
(* C13): one action per observable step - a registry update, a put into / get from a        *)
(* fabric queue, an append to a client queue, start/stop/clear.                             *)
EXTENDS Naturals, Sequences, FiniteSets, TLC
Kinds == {"fifo", "lifo"}
Sigs  == {"SA", "SB"}

VARIABLES subs,       \* [kind][signal] -> sequence of client queues, no duplicates
          pq,         \* [kind] -> waiting fabric events <<priority, arrival, id, signal>>
          pn,         \* arrivals so far
          inflight,   \* [kind] -> <<>> or <<id, signal, subscribers at the time of the get>>
          delivered,  \* {<<id, queue, kind>>}
          owed,       \* {<<id, queue, kind>>}: publications made while running, after the subscription took effect
          running,    \* start() has returned and stop() has not been called since
          returned,   \* ids whose publish call has returned
          hb          \* {<<a, b>>}: publish(a) returned before publish(b) was called ("a was published before b")
fvars == <<subs, pq, pn, inflight, delivered, owed, running, returned, hb>>

SeqSet(s) == {s[i] : i \in 1..Len(s)}
FInit == /\ subs = [k \in Kinds |-> [s \in Sigs |-> <<>>]] /\ pq = [k \in Kinds |-> <<>>] /\ pn = 0
         /\ inflight = [k \in Kinds |-> <<>>] /\ delivered = {} /\ owed = {} /\ running = FALSE
         /\ returned = {} /\ hb = {}

Subscribe(q, sig, kind) ==
  /\ subs' = [subs EXCEPT ![kind][sig] = IF q \in SeqSet(@) THEN @ ELSE Append(@, q)]    \* repeating a subscription changes nothing
  /\ UNCHANGED <<pq, pn, inflight, delivered, owed, running, returned, hb>>

Put(kind, id, prio, sig) ==
  /\ pq' = [pq EXCEPT ![kind] = Append(@, <<prio, pn, id, sig>>)] /\ pn' = pn + 1
  /\ owed' = owed \cup (IF id # 0 /\ running /\ sig \in Sigs THEN {<<id, q, kind>> : q \in SeqSet(subs[kind][sig])} ELSE {})
  /\ UNCHANGED <<subs, inflight, delivered, running, returned, hb>>

PubCall(id) == hb' = hb \cup {<<a, id>> : a \in returned} /\ UNCHANGED <<subs, pq, pn, inflight, delivered, owed, running, returned>>
PubRet(id)  == returned' = returned \cup {id} /\ UNCHANGED <<subs, pq, pn, inflight, delivered, owed, running, hb>>

(* C08: smaller priority number first; among equal priorities an event published before *)
(* another (its publish call had returned before the other was called) comes first; the  *)
(* order of overlapping publish calls is not prescribed                                  *)
MayPrecede(x, y) == x[1] < y[1] \/ (x[1] = y[1] /\ <<y[3], x[3]>> \notin hb)
Without(s, x) == SelectSeq(s, LAMBDA y : y # x)
GetOK(kind, id) == \E x \in SeqSet(pq[kind]) : x[3] = id /\ \A y \in SeqSet(pq[kind]) : y = x \/ y[3] = 0 \/ id = 0 \/ MayPrecede(x, y)
(* the delivery thread takes the item `x` (the spec demands x = First(kind)) *)
Get(kind, x) ==
  /\ x \in SeqSet(pq[kind])
  /\ pq' = [pq EXCEPT ![kind] = Without(@, x)]
  /\ inflight' = [inflight EXCEPT ![kind] = <<x[3], x[4], IF x[4] \in Sigs THEN subs[kind][x[4]] ELSE <<>> >>]
  /\ UNCHANGED <<subs, pn, delivered, owed, running, returned, hb>>

(* clear() takes waiting events out of the queues one by one ... *)
Drain(kind, x) ==
  /\ x \in SeqSet(pq[kind])
  /\ pq' = [pq EXCEPT ![kind] = Without(@, x)]
  /\ owed' = {o \in owed : ~(o[1] = x[3] /\ o[3] = kind /\ o \notin delivered)}
  /\ UNCHANGED <<subs, pn, inflight, delivered, running, returned, hb>>

DeliverOK(kind, q, id) ==
  /\ inflight[kind] # <<>> /\ inflight[kind][1] = id
  /\ q \in SeqSet(inflight[kind][3]) \/ (inflight[kind][2] \in Sigs /\ q \in SeqSet(subs[kind][inflight[kind][2]]))
Deliver(kind, q, id) ==
  /\ delivered' = delivered \cup {<<id, q, kind>>}
  /\ UNCHANGED <<subs, pq, pn, inflight, owed, running, returned, hb>>

Started == running' = TRUE /\ UNCHANGED <<subs, pq, pn, inflight, delivered, owed, returned, hb>>
StopCalled == running' = FALSE /\ UNCHANGED <<subs, pq, pn, inflight, delivered, owed, returned, hb>>
(* ... and then forgets every subscription; an event published while clear() runs may survive *)
(* it and is delivered to whoever subscribes afterwards, but is no longer owed to anyone    *)
Clear == /\ subs' = [k \in Kinds |-> [s \in Sigs |-> <<>>]]
         /\ owed' = owed \cap delivered
         /\ UNCHANGED <<pq, pn, inflight, delivered, running, returned, hb>>

NoDupSubs == \A k \in Kinds, s \in Sigs : \A i, j \in 1..Len(subs[k][s]) : i # j => subs[k][s][i] # subs[k][s][j]
AllDelivered == owed \subseteq delivered
=============================================================================
