------------------------------ MODULE HsmAlgo ------------------------------
(* Line-by-line transcription of HsmEventProcessor.dispatch / trans_ / init (hsm.py)    *)
(* as a PlusCal algorithm whose every step is one handler call, model-checked against   *)
(* the reference semantics of Tree.tla for EVERY tree of N states, every rest state,    *)
(* every answering state S on the active path, every target T, every way the handlers   *)
(* answer EXIT (HANDLED / fall through to SUPER) and every chain of initial             *)
(* transitions.  `clog` is the complete handler-call sequence; the conformance driver   *)
(* compares it call-for-call with the real code's (harness/algoconf.py).                *)
(*                                                                                      *)
(* FixMaxIndex = FALSE is hsm.py before the "fix: refresh max_index after trans_"       *)
(* commit: TLC finds the wrong-entry counterexample on the 9-state spine.               *)
EXTENDS Tree, TLC, Json
CONSTANTS N, MaxBranch, FixMaxIndex, Mode     \* Mode \in {"dispatch", "start"}

States == 1..N
Trees  == TreesN(N, MaxBranch)
Tag(k, s) == [i \in 1..Len(s) |-> <<k, s[i]>>]

(* --algorithm HsmAlgo {
variables par \in Trees, cur \in States, temp = 0, log = <<>>, clog = <<>>, ref = <<>>, refcur = 0,
          t = 0, s = 0, iq = 0, r = "", tpath = <<0,0,0>>, maxIndex = 2, done = FALSE,
          S = 0, T = 0, tt = 0, mi2 = 2, outermost = 0, idx = 0, prevSuper = N + 1;
macro SuperCall(st) { clog := Append(clog, <<"SUPER", st>>);
                      if (st = 0) { r := "IGNORED" } else { temp := par[st]; r := "SUPER" } }
macro Act(k, ck, st) { log := Append(log, <<k, st>>); clog := Append(clog, <<ck, st>>) }
{
 begin: if (Mode = "start") { goto st0 };
 \* ============================ dispatch ============================
 start: temp := cur;
        with (a \in SeqSet(Up(par, cur)), b \in States) { S := a; T := b };
        ref := Tag("exit", ExitStates(par, cur, LCA(par, S, T))) \o Tag("entry", EntryStates(par, T, LCA(par, S, T)));
        refcur := T;
        t := cur;
 search: while (TRUE) {                      \* the event bubbles outward until S answers TRAN
          s := temp;
          clog := Append(clog, <<"EVT", s>>);
          if (s = S) { temp := T; r := "TRAN"; goto found } else { temp := par[s]; r := "SUPER" }
        };
 found: tpath := <<temp, t, s>>;
 exitwalk: while (t # s) {
          either { Act("exit", "exitH", t); r := "HANDLED";
     ex2:          SuperCall(t) }
          or     { Act("exit", "exitF", t); temp := par[t]; r := "SUPER" };
     ex3: t := temp;
        };
 \* ---- trans_(tpath, max_index): tt stands for ip + 1 ----
 tr0: iq := 0;
      t := tpath[1]; s := tpath[3]; mi2 := 2;
      if (s = t) { Act("exit", "exitS", s); tt := 1; goto enter }                 \* (a)
      else { tt := 0; SuperCall(t) };
 tr1: t := temp;
      if (s = t) { tt := 1; goto enter } else { SuperCall(s) };          \* (b)
 tr2: if (temp = t) { Act("exit", "exitS", s); tt := 1; goto enter }              \* (c)
      else if (temp = tpath[1]) { Act("exit", "exitS", s); goto enter }           \* (d)
      else { iq := 0; tt := 2; tpath[2] := t; t := temp; SuperCall(tpath[2]) };   \* (e)
 tr3: while (r = "SUPER") {
        if (tt > mi2) { tpath := Append(tpath, temp); mi2 := tt } else { tpath[tt + 1] := temp };
        if (temp = s) { iq := 1; r := "HANDLED" } else { tt := tt + 1; SuperCall(temp) }
      };
 tr4: if (iq = 0) {
        Act("exit", "exitS", s);
        if (\E k \in 1..tt : tpath[k] = t) {                             \* (f)
           r := "HANDLED"; tt := (CHOOSE k \in 1..tt : tpath[k] = t /\ \A j \in 1..tt : tpath[j] = t => j <= k) - 1;
        } else { r := "IGNORED" };
      };
 tr5: if (iq = 0 /\ r # "HANDLED") {                                     \* (g)
 g1:    while (r # "HANDLED") {
          either { Act("exit", "exitH", t);
     g2:           SuperCall(t) }
          or     { Act("exit", "exitF", t); temp := par[t] };
     g3:  t := temp;
          if (\E k \in 1..tt : tpath[k] = t) {
             r := "HANDLED"; tt := (CHOOSE k \in 1..tt : tpath[k] = t /\ \A j \in 1..tt : tpath[j] = t => j <= k) - 1;
          }
        }
      };
 enter: if (FixMaxIndex) { maxIndex := Len(tpath) - 1 };
 enter1: while (tt >= 1) { Act("entry", "entry", tpath[tt]); tt := tt - 1 };
 en2:  t := tpath[1]; temp := tpath[1];
 \* ---- initial transitions below T ----
 initloop: while (TRUE) {
          either { Act("init", "initH", t); r := "HANDLED"; goto fin }
          or { with (d \in PDesc(par, t)) { Act("init", "initT", t); temp := d; r := "TRAN";
                 ref := ref \o <<<<"init", t>>>> \o Tag("entry", Rev(Before(Up(par, d), t))); refcur := d } };
     i1:  tpath[1] := temp; tt := 1;
          SuperCall(temp);
     i2:  while (temp # t) {
            if (tt > maxIndex) { tpath := Append(tpath, temp); maxIndex := tt } else { tpath[tt + 1] := temp };
            tt := tt + 1;
            SuperCall(temp)
          };
     i3:  temp := tpath[1];
     i4:  while (tt >= 1) { Act("entry", "entry", tpath[tt]); tt := tt - 1 };
     i5:  t := tpath[1];
        };
 fin: ref := ref \o <<<<"init", t>>>>; cur := t; temp := t; done := TRUE; goto Done;

 \* ============================ start_at(cur) / init() ============================
 st0: temp := cur; outermost := 0; tpath := <<0>>; maxIndex := 0;
      ref := Tag("entry", Path(par, cur)); refcur := cur;
 souter: while (TRUE) {
      tpath[1] := temp; idx := 0; prevSuper := N + 1;
   sin: while (temp # outermost) {
        idx := idx + 1;
        SuperCall(temp);
   sin2: if (prevSuper = temp) { r := "RAISED"; goto Done };
   sin3: if (idx > maxIndex) { tpath := Append(tpath, temp); maxIndex := idx } else { tpath[idx + 1] := temp };
        prevSuper := temp;
      };
   sen: temp := tpath[1];
   sen1: idx := idx - 1;
        Act("entry", "entry", tpath[idx + 1]);
        if (idx > 0) { goto sen1 };
   sini: outermost := tpath[1];
        either { Act("init", "initH", outermost); r := "HANDLED"; goto sfin }
        or { with (d \in PDesc(par, outermost)) { Act("init", "initT", outermost); temp := d; r := "TRAN";
               ref := ref \o <<<<"init", outermost>>>> \o Tag("entry", Rev(Before(Up(par, d), outermost))); refcur := d } };
      };
 sfin: ref := ref \o <<<<"init", outermost>>>>; cur := outermost; temp := outermost; done := TRUE;
}
} *)
\* BEGIN TRANSLATION
VARIABLES pc, par, cur, temp, log, clog, ref, refcur, t, s, iq, r, tpath, 
          maxIndex, done, S, T, tt, mi2, outermost, idx, prevSuper

vars == << pc, par, cur, temp, log, clog, ref, refcur, t, s, iq, r, tpath, 
           maxIndex, done, S, T, tt, mi2, outermost, idx, prevSuper >>

Init == (* Global variables *)
        /\ par \in Trees
        /\ cur \in States
        /\ temp = 0
        /\ log = <<>>
        /\ clog = <<>>
        /\ ref = <<>>
        /\ refcur = 0
        /\ t = 0
        /\ s = 0
        /\ iq = 0
        /\ r = ""
        /\ tpath = <<0,0,0>>
        /\ maxIndex = 2
        /\ done = FALSE
        /\ S = 0
        /\ T = 0
        /\ tt = 0
        /\ mi2 = 2
        /\ outermost = 0
        /\ idx = 0
        /\ prevSuper = N + 1
        /\ pc = "begin"

begin == /\ pc = "begin"
         /\ IF Mode = "start"
               THEN /\ pc' = "st0"
               ELSE /\ pc' = "start"
         /\ UNCHANGED << par, cur, temp, log, clog, ref, refcur, t, s, iq, r, 
                         tpath, maxIndex, done, S, T, tt, mi2, outermost, idx, 
                         prevSuper >>

start == /\ pc = "start"
         /\ temp' = cur
         /\ \E a \in SeqSet(Up(par, cur)):
              \E b \in States:
                /\ S' = a
                /\ T' = b
         /\ ref' = Tag("exit", ExitStates(par, cur, LCA(par, S', T'))) \o Tag("entry", EntryStates(par, T', LCA(par, S', T')))
         /\ refcur' = T'
         /\ t' = cur
         /\ pc' = "search"
         /\ UNCHANGED << par, cur, log, clog, s, iq, r, tpath, maxIndex, done, 
                         tt, mi2, outermost, idx, prevSuper >>

search == /\ pc = "search"
          /\ s' = temp
          /\ clog' = Append(clog, <<"EVT", s'>>)
          /\ IF s' = S
                THEN /\ temp' = T
                     /\ r' = "TRAN"
                     /\ pc' = "found"
                ELSE /\ temp' = par[s']
                     /\ r' = "SUPER"
                     /\ pc' = "search"
          /\ UNCHANGED << par, cur, log, ref, refcur, t, iq, tpath, maxIndex, 
                          done, S, T, tt, mi2, outermost, idx, prevSuper >>

found == /\ pc = "found"
         /\ tpath' = <<temp, t, s>>
         /\ pc' = "exitwalk"
         /\ UNCHANGED << par, cur, temp, log, clog, ref, refcur, t, s, iq, r, 
                         maxIndex, done, S, T, tt, mi2, outermost, idx, 
                         prevSuper >>

exitwalk == /\ pc = "exitwalk"
            /\ IF t # s
                  THEN /\ \/ /\ log' = Append(log, <<"exit", t>>)
                             /\ clog' = Append(clog, <<"exitH", t>>)
                             /\ r' = "HANDLED"
                             /\ pc' = "ex2"
                             /\ temp' = temp
                          \/ /\ log' = Append(log, <<"exit", t>>)
                             /\ clog' = Append(clog, <<"exitF", t>>)
                             /\ temp' = par[t]
                             /\ r' = "SUPER"
                             /\ pc' = "ex3"
                  ELSE /\ pc' = "tr0"
                       /\ UNCHANGED << temp, log, clog, r >>
            /\ UNCHANGED << par, cur, ref, refcur, t, s, iq, tpath, maxIndex, 
                            done, S, T, tt, mi2, outermost, idx, prevSuper >>

ex3 == /\ pc = "ex3"
       /\ t' = temp
       /\ pc' = "exitwalk"
       /\ UNCHANGED << par, cur, temp, log, clog, ref, refcur, s, iq, r, tpath, 
                       maxIndex, done, S, T, tt, mi2, outermost, idx, 
                       prevSuper >>

ex2 == /\ pc = "ex2"
       /\ clog' = Append(clog, <<"SUPER", t>>)
       /\ IF t = 0
             THEN /\ r' = "IGNORED"
                  /\ temp' = temp
             ELSE /\ temp' = par[t]
                  /\ r' = "SUPER"
       /\ pc' = "ex3"
       /\ UNCHANGED << par, cur, log, ref, refcur, t, s, iq, tpath, maxIndex, 
                       done, S, T, tt, mi2, outermost, idx, prevSuper >>

tr0 == /\ pc = "tr0"
       /\ iq' = 0
       /\ t' = tpath[1]
       /\ s' = tpath[3]
       /\ mi2' = 2
       /\ IF s' = t'
             THEN /\ log' = Append(log, <<"exit", s'>>)
                  /\ clog' = Append(clog, <<"exitS", s'>>)
                  /\ tt' = 1
                  /\ pc' = "enter"
                  /\ UNCHANGED << temp, r >>
             ELSE /\ tt' = 0
                  /\ clog' = Append(clog, <<"SUPER", t'>>)
                  /\ IF t' = 0
                        THEN /\ r' = "IGNORED"
                             /\ temp' = temp
                        ELSE /\ temp' = par[t']
                             /\ r' = "SUPER"
                  /\ pc' = "tr1"
                  /\ log' = log
       /\ UNCHANGED << par, cur, ref, refcur, tpath, maxIndex, done, S, T, 
                       outermost, idx, prevSuper >>

tr1 == /\ pc = "tr1"
       /\ t' = temp
       /\ IF s = t'
             THEN /\ tt' = 1
                  /\ pc' = "enter"
                  /\ UNCHANGED << temp, clog, r >>
             ELSE /\ clog' = Append(clog, <<"SUPER", s>>)
                  /\ IF s = 0
                        THEN /\ r' = "IGNORED"
                             /\ temp' = temp
                        ELSE /\ temp' = par[s]
                             /\ r' = "SUPER"
                  /\ pc' = "tr2"
                  /\ tt' = tt
       /\ UNCHANGED << par, cur, log, ref, refcur, s, iq, tpath, maxIndex, 
                       done, S, T, mi2, outermost, idx, prevSuper >>

tr2 == /\ pc = "tr2"
       /\ IF temp = t
             THEN /\ log' = Append(log, <<"exit", s>>)
                  /\ clog' = Append(clog, <<"exitS", s>>)
                  /\ tt' = 1
                  /\ pc' = "enter"
                  /\ UNCHANGED << temp, t, iq, r, tpath >>
             ELSE /\ IF temp = tpath[1]
                        THEN /\ log' = Append(log, <<"exit", s>>)
                             /\ clog' = Append(clog, <<"exitS", s>>)
                             /\ pc' = "enter"
                             /\ UNCHANGED << temp, t, iq, r, tpath, tt >>
                        ELSE /\ iq' = 0
                             /\ tt' = 2
                             /\ tpath' = [tpath EXCEPT ![2] = t]
                             /\ t' = temp
                             /\ clog' = Append(clog, <<"SUPER", (tpath'[2])>>)
                             /\ IF (tpath'[2]) = 0
                                   THEN /\ r' = "IGNORED"
                                        /\ temp' = temp
                                   ELSE /\ temp' = par[(tpath'[2])]
                                        /\ r' = "SUPER"
                             /\ pc' = "tr3"
                             /\ log' = log
       /\ UNCHANGED << par, cur, ref, refcur, s, maxIndex, done, S, T, mi2, 
                       outermost, idx, prevSuper >>

tr3 == /\ pc = "tr3"
       /\ IF r = "SUPER"
             THEN /\ IF tt > mi2
                        THEN /\ tpath' = Append(tpath, temp)
                             /\ mi2' = tt
                        ELSE /\ tpath' = [tpath EXCEPT ![tt + 1] = temp]
                             /\ mi2' = mi2
                  /\ IF temp = s
                        THEN /\ iq' = 1
                             /\ r' = "HANDLED"
                             /\ UNCHANGED << temp, clog, tt >>
                        ELSE /\ tt' = tt + 1
                             /\ clog' = Append(clog, <<"SUPER", temp>>)
                             /\ IF temp = 0
                                   THEN /\ r' = "IGNORED"
                                        /\ temp' = temp
                                   ELSE /\ temp' = par[temp]
                                        /\ r' = "SUPER"
                             /\ iq' = iq
                  /\ pc' = "tr3"
             ELSE /\ pc' = "tr4"
                  /\ UNCHANGED << temp, clog, iq, r, tpath, tt, mi2 >>
       /\ UNCHANGED << par, cur, log, ref, refcur, t, s, maxIndex, done, S, T, 
                       outermost, idx, prevSuper >>

tr4 == /\ pc = "tr4"
       /\ IF iq = 0
             THEN /\ log' = Append(log, <<"exit", s>>)
                  /\ clog' = Append(clog, <<"exitS", s>>)
                  /\ IF \E k \in 1..tt : tpath[k] = t
                        THEN /\ r' = "HANDLED"
                             /\ tt' = (CHOOSE k \in 1..tt : tpath[k] = t /\ \A j \in 1..tt : tpath[j] = t => j <= k) - 1
                        ELSE /\ r' = "IGNORED"
                             /\ tt' = tt
             ELSE /\ TRUE
                  /\ UNCHANGED << log, clog, r, tt >>
       /\ pc' = "tr5"
       /\ UNCHANGED << par, cur, temp, ref, refcur, t, s, iq, tpath, maxIndex, 
                       done, S, T, mi2, outermost, idx, prevSuper >>

tr5 == /\ pc = "tr5"
       /\ IF iq = 0 /\ r # "HANDLED"
             THEN /\ pc' = "g1"
             ELSE /\ pc' = "enter"
       /\ UNCHANGED << par, cur, temp, log, clog, ref, refcur, t, s, iq, r, 
                       tpath, maxIndex, done, S, T, tt, mi2, outermost, idx, 
                       prevSuper >>

g1 == /\ pc = "g1"
      /\ IF r # "HANDLED"
            THEN /\ \/ /\ log' = Append(log, <<"exit", t>>)
                       /\ clog' = Append(clog, <<"exitH", t>>)
                       /\ pc' = "g2"
                       /\ temp' = temp
                    \/ /\ log' = Append(log, <<"exit", t>>)
                       /\ clog' = Append(clog, <<"exitF", t>>)
                       /\ temp' = par[t]
                       /\ pc' = "g3"
            ELSE /\ pc' = "enter"
                 /\ UNCHANGED << temp, log, clog >>
      /\ UNCHANGED << par, cur, ref, refcur, t, s, iq, r, tpath, maxIndex, 
                      done, S, T, tt, mi2, outermost, idx, prevSuper >>

g3 == /\ pc = "g3"
      /\ t' = temp
      /\ IF \E k \in 1..tt : tpath[k] = t'
            THEN /\ r' = "HANDLED"
                 /\ tt' = (CHOOSE k \in 1..tt : tpath[k] = t' /\ \A j \in 1..tt : tpath[j] = t' => j <= k) - 1
            ELSE /\ TRUE
                 /\ UNCHANGED << r, tt >>
      /\ pc' = "g1"
      /\ UNCHANGED << par, cur, temp, log, clog, ref, refcur, s, iq, tpath, 
                      maxIndex, done, S, T, mi2, outermost, idx, prevSuper >>

g2 == /\ pc = "g2"
      /\ clog' = Append(clog, <<"SUPER", t>>)
      /\ IF t = 0
            THEN /\ r' = "IGNORED"
                 /\ temp' = temp
            ELSE /\ temp' = par[t]
                 /\ r' = "SUPER"
      /\ pc' = "g3"
      /\ UNCHANGED << par, cur, log, ref, refcur, t, s, iq, tpath, maxIndex, 
                      done, S, T, tt, mi2, outermost, idx, prevSuper >>

enter == /\ pc = "enter"
         /\ IF FixMaxIndex
               THEN /\ maxIndex' = Len(tpath) - 1
               ELSE /\ TRUE
                    /\ UNCHANGED maxIndex
         /\ pc' = "enter1"
         /\ UNCHANGED << par, cur, temp, log, clog, ref, refcur, t, s, iq, r, 
                         tpath, done, S, T, tt, mi2, outermost, idx, prevSuper >>

enter1 == /\ pc = "enter1"
          /\ IF tt >= 1
                THEN /\ log' = Append(log, <<"entry", (tpath[tt])>>)
                     /\ clog' = Append(clog, <<"entry", (tpath[tt])>>)
                     /\ tt' = tt - 1
                     /\ pc' = "enter1"
                ELSE /\ pc' = "en2"
                     /\ UNCHANGED << log, clog, tt >>
          /\ UNCHANGED << par, cur, temp, ref, refcur, t, s, iq, r, tpath, 
                          maxIndex, done, S, T, mi2, outermost, idx, prevSuper >>

en2 == /\ pc = "en2"
       /\ t' = tpath[1]
       /\ temp' = tpath[1]
       /\ pc' = "initloop"
       /\ UNCHANGED << par, cur, log, clog, ref, refcur, s, iq, r, tpath, 
                       maxIndex, done, S, T, tt, mi2, outermost, idx, 
                       prevSuper >>

initloop == /\ pc = "initloop"
            /\ \/ /\ log' = Append(log, <<"init", t>>)
                  /\ clog' = Append(clog, <<"initH", t>>)
                  /\ r' = "HANDLED"
                  /\ pc' = "fin"
                  /\ UNCHANGED <<temp, ref, refcur>>
               \/ /\ \E d \in PDesc(par, t):
                       /\ log' = Append(log, <<"init", t>>)
                       /\ clog' = Append(clog, <<"initT", t>>)
                       /\ temp' = d
                       /\ r' = "TRAN"
                       /\ ref' = ref \o <<<<"init", t>>>> \o Tag("entry", Rev(Before(Up(par, d), t)))
                       /\ refcur' = d
                  /\ pc' = "i1"
            /\ UNCHANGED << par, cur, t, s, iq, tpath, maxIndex, done, S, T, 
                            tt, mi2, outermost, idx, prevSuper >>

i1 == /\ pc = "i1"
      /\ tpath' = [tpath EXCEPT ![1] = temp]
      /\ tt' = 1
      /\ clog' = Append(clog, <<"SUPER", temp>>)
      /\ IF temp = 0
            THEN /\ r' = "IGNORED"
                 /\ temp' = temp
            ELSE /\ temp' = par[temp]
                 /\ r' = "SUPER"
      /\ pc' = "i2"
      /\ UNCHANGED << par, cur, log, ref, refcur, t, s, iq, maxIndex, done, S, 
                      T, mi2, outermost, idx, prevSuper >>

i2 == /\ pc = "i2"
      /\ IF temp # t
            THEN /\ IF tt > maxIndex
                       THEN /\ tpath' = Append(tpath, temp)
                            /\ maxIndex' = tt
                       ELSE /\ tpath' = [tpath EXCEPT ![tt + 1] = temp]
                            /\ UNCHANGED maxIndex
                 /\ tt' = tt + 1
                 /\ clog' = Append(clog, <<"SUPER", temp>>)
                 /\ IF temp = 0
                       THEN /\ r' = "IGNORED"
                            /\ temp' = temp
                       ELSE /\ temp' = par[temp]
                            /\ r' = "SUPER"
                 /\ pc' = "i2"
            ELSE /\ pc' = "i3"
                 /\ UNCHANGED << temp, clog, r, tpath, maxIndex, tt >>
      /\ UNCHANGED << par, cur, log, ref, refcur, t, s, iq, done, S, T, mi2, 
                      outermost, idx, prevSuper >>

i3 == /\ pc = "i3"
      /\ temp' = tpath[1]
      /\ pc' = "i4"
      /\ UNCHANGED << par, cur, log, clog, ref, refcur, t, s, iq, r, tpath, 
                      maxIndex, done, S, T, tt, mi2, outermost, idx, prevSuper >>

i4 == /\ pc = "i4"
      /\ IF tt >= 1
            THEN /\ log' = Append(log, <<"entry", (tpath[tt])>>)
                 /\ clog' = Append(clog, <<"entry", (tpath[tt])>>)
                 /\ tt' = tt - 1
                 /\ pc' = "i4"
            ELSE /\ pc' = "i5"
                 /\ UNCHANGED << log, clog, tt >>
      /\ UNCHANGED << par, cur, temp, ref, refcur, t, s, iq, r, tpath, 
                      maxIndex, done, S, T, mi2, outermost, idx, prevSuper >>

i5 == /\ pc = "i5"
      /\ t' = tpath[1]
      /\ pc' = "initloop"
      /\ UNCHANGED << par, cur, temp, log, clog, ref, refcur, s, iq, r, tpath, 
                      maxIndex, done, S, T, tt, mi2, outermost, idx, prevSuper >>

fin == /\ pc = "fin"
       /\ ref' = ref \o <<<<"init", t>>>>
       /\ cur' = t
       /\ temp' = t
       /\ done' = TRUE
       /\ pc' = "Done"
       /\ UNCHANGED << par, log, clog, refcur, t, s, iq, r, tpath, maxIndex, S, 
                       T, tt, mi2, outermost, idx, prevSuper >>

st0 == /\ pc = "st0"
       /\ temp' = cur
       /\ outermost' = 0
       /\ tpath' = <<0>>
       /\ maxIndex' = 0
       /\ ref' = Tag("entry", Path(par, cur))
       /\ refcur' = cur
       /\ pc' = "souter"
       /\ UNCHANGED << par, cur, log, clog, t, s, iq, r, done, S, T, tt, mi2, 
                       idx, prevSuper >>

souter == /\ pc = "souter"
          /\ tpath' = [tpath EXCEPT ![1] = temp]
          /\ idx' = 0
          /\ prevSuper' = N + 1
          /\ pc' = "sin"
          /\ UNCHANGED << par, cur, temp, log, clog, ref, refcur, t, s, iq, r, 
                          maxIndex, done, S, T, tt, mi2, outermost >>

sin == /\ pc = "sin"
       /\ IF temp # outermost
             THEN /\ idx' = idx + 1
                  /\ clog' = Append(clog, <<"SUPER", temp>>)
                  /\ IF temp = 0
                        THEN /\ r' = "IGNORED"
                             /\ temp' = temp
                        ELSE /\ temp' = par[temp]
                             /\ r' = "SUPER"
                  /\ pc' = "sin2"
             ELSE /\ pc' = "sen"
                  /\ UNCHANGED << temp, clog, r, idx >>
       /\ UNCHANGED << par, cur, log, ref, refcur, t, s, iq, tpath, maxIndex, 
                       done, S, T, tt, mi2, outermost, prevSuper >>

sin2 == /\ pc = "sin2"
        /\ IF prevSuper = temp
              THEN /\ r' = "RAISED"
                   /\ pc' = "Done"
              ELSE /\ pc' = "sin3"
                   /\ r' = r
        /\ UNCHANGED << par, cur, temp, log, clog, ref, refcur, t, s, iq, 
                        tpath, maxIndex, done, S, T, tt, mi2, outermost, idx, 
                        prevSuper >>

sin3 == /\ pc = "sin3"
        /\ IF idx > maxIndex
              THEN /\ tpath' = Append(tpath, temp)
                   /\ maxIndex' = idx
              ELSE /\ tpath' = [tpath EXCEPT ![idx + 1] = temp]
                   /\ UNCHANGED maxIndex
        /\ prevSuper' = temp
        /\ pc' = "sin"
        /\ UNCHANGED << par, cur, temp, log, clog, ref, refcur, t, s, iq, r, 
                        done, S, T, tt, mi2, outermost, idx >>

sen == /\ pc = "sen"
       /\ temp' = tpath[1]
       /\ pc' = "sen1"
       /\ UNCHANGED << par, cur, log, clog, ref, refcur, t, s, iq, r, tpath, 
                       maxIndex, done, S, T, tt, mi2, outermost, idx, 
                       prevSuper >>

sen1 == /\ pc = "sen1"
        /\ idx' = idx - 1
        /\ log' = Append(log, <<"entry", (tpath[idx' + 1])>>)
        /\ clog' = Append(clog, <<"entry", (tpath[idx' + 1])>>)
        /\ IF idx' > 0
              THEN /\ pc' = "sen1"
              ELSE /\ pc' = "sini"
        /\ UNCHANGED << par, cur, temp, ref, refcur, t, s, iq, r, tpath, 
                        maxIndex, done, S, T, tt, mi2, outermost, prevSuper >>

sini == /\ pc = "sini"
        /\ outermost' = tpath[1]
        /\ \/ /\ log' = Append(log, <<"init", outermost'>>)
              /\ clog' = Append(clog, <<"initH", outermost'>>)
              /\ r' = "HANDLED"
              /\ pc' = "sfin"
              /\ UNCHANGED <<temp, ref, refcur>>
           \/ /\ \E d \in PDesc(par, outermost'):
                   /\ log' = Append(log, <<"init", outermost'>>)
                   /\ clog' = Append(clog, <<"initT", outermost'>>)
                   /\ temp' = d
                   /\ r' = "TRAN"
                   /\ ref' = ref \o <<<<"init", outermost'>>>> \o Tag("entry", Rev(Before(Up(par, d), outermost')))
                   /\ refcur' = d
              /\ pc' = "souter"
        /\ UNCHANGED << par, cur, t, s, iq, tpath, maxIndex, done, S, T, tt, 
                        mi2, idx, prevSuper >>

sfin == /\ pc = "sfin"
        /\ ref' = ref \o <<<<"init", outermost>>>>
        /\ cur' = outermost
        /\ temp' = outermost
        /\ done' = TRUE
        /\ pc' = "Done"
        /\ UNCHANGED << par, log, clog, refcur, t, s, iq, r, tpath, maxIndex, 
                        S, T, tt, mi2, outermost, idx, prevSuper >>

(* Allow infinite stuttering to prevent deadlock on termination. *)
Terminating == pc = "Done" /\ UNCHANGED vars

Next == begin \/ start \/ search \/ found \/ exitwalk \/ ex3 \/ ex2 \/ tr0
           \/ tr1 \/ tr2 \/ tr3 \/ tr4 \/ tr5 \/ g1 \/ g3 \/ g2 \/ enter
           \/ enter1 \/ en2 \/ initloop \/ i1 \/ i2 \/ i3 \/ i4 \/ i5 \/ fin
           \/ st0 \/ souter \/ sin \/ sin2 \/ sin3 \/ sen \/ sen1 \/ sini \/ sfin
           \/ Terminating

Spec == Init /\ [][Next]_vars

Termination == <>(pc = "Done")

\* END TRANSLATION

Conform == done => (log = ref /\ cur = refcur /\ temp = refcur)      \* C01 / C03
NeverRaises == r # "RAISED"                                          \* well-formed charts never raise
Bounded == Len(clog) < 40 * N + 40                                   \* termination (no runaway search)
(* the complete call log is a history variable: hidden from the exhaustive runs *)
NoClog == << pc, par, cur, temp, log, ref, refcur, t, s, iq, r, tpath, maxIndex, done, S, T, tt, mi2, outermost, idx, prevSuper >>
(* every exported behaviour: terminal states only *)
Export == done => PrintT(ToJson([par |-> par, mode |-> Mode, S |-> S, T |-> T, clog |-> clog, cur |-> cur]))
=============================================================================
