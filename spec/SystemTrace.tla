---------------------------- MODULE SystemTrace ----------------------------
(* Validates recorded executions of the real system - several ActiveObjects, the fabric, timed   *)
(* sources, driver threads calling the public API (harness/sysdrive.py) - against System.tla at   *)
(* the level of the pending-event queues.  One line of TRACE_FILE = one execution:                *)
(*   {"tid", "cap", "aos": [...], "ev": [...], "end": {...}}                                     *)
(* The records used here (others are skipped):                                                    *)
(*   ["qop", ao, op, item, thread, queue_after, time]   every operation on an object's deque      *)
(*   ["disp", ao, signal, id, time]                     the chart was handed this event           *)
(*   ["call"|"ret", "start"|"stop"|"post"|"tpost"|..., ao, ...]                                   *)
(* Verdicts are total and name the failing clause.                                                *)
EXTENDS System, Json, IOUtils, TLCExt
All == ndJsonDeserialize(IOEnv.TRACE_FILE)
VARIABLES tid, l, bad,
          kindOf,    \* {<<item, ao, kind>>}: numbered events posted through post_fifo / post_lifo by a driver or handler
          srcKind,   \* {<<thread, ao, kind>>}: timed sources by the name of their thread
          fabDown,   \* ActiveFabric().stop() has returned and start() has not been called since (C13)
          grace,     \* objects that have taken their one in-flight event since the fabric stopped
          woken      \* objects that were handed an event after the fabric stopped
tv == <<svars, tid, l, bad, kindOf, srcKind, fabDown, grace, woken>>
T == All[tid]
E == T.ev[l]
Chk(ok, name) == IF ok THEN {} ELSE {name}
AOSet == {T.aos[i] : i \in 1..Len(T.aos)}
TInit == tid \in DOMAIN All /\ l = 1 /\ bad = {} /\ kindOf = {} /\ srcKind = {} /\ fabDown = FALSE /\ grace = {} /\ woken = {} /\ SInit({All[tid].aos[i] : i \in 1..Len(All[tid].aos)})

ItemOf(sg, id) == IF id > 0 THEN "e" \o ToString(id) ELSE "s:" \o sg
Prefix(s, p) == Len(s) >= Len(p) /\ SubSeq(s, 1, Len(p)) = p
IsTimer(th) == Prefix(th, "tm")
IsFab(th)   == Prefix(th, "fab_")
(* the end of the queue the producer owes (C04: fifo posts at the back, lifo posts at the front; C09; C10) *)
OwedEnd(ao, item, th) ==
  IF IsFab(th) THEN (IF Prefix(th, "fab_lifo") THEN {"l"} ELSE {"f"})
  ELSE IF IsTimer(th) THEN {IF x[3] = "lifo" THEN "l" ELSE "f" : x \in {y \in srcKind : y[1] = th /\ y[2] = ao}}
  ELSE IF item = "s:STOP_ACTIVE_OBJECT_SIGNAL" \/ ~Numbered(item) THEN {"f", "l"}
  ELSE LET K == {x \in kindOf : x[1] = item /\ x[2] = ao} IN IF K = {} THEN {"f", "l"} ELSE {IF x[3] = "lifo" THEN "l" ELSE "f" : x \in K}

Keep == UNCHANGED svars
Inv == Chk(Bounded, "Unbounded") \cup Chk(InOrder, "Order") \cup Chk(DispatchIsPop, "DispatchNotPop") \cup Chk(AtMostOnce, "Twice")
       \cup Chk(QuietUnlessRunning, "DispatchBeforeStart")
(* the verdict of a step: its own clauses plus the state invariants of System.tla in the state the step STARTS from,  *)
(* i.e. the state the previous record led to (the last state is covered by Final).  Total verdicts: a failing trace  *)
(* must not stop the batch, so the invariants are evaluated here rather than as INVARIANT lines; and unprimed,        *)
(* because TLC does not cache lazily evaluated arguments of recursive operators in a primed context.                  *)
SetBad(x) == bad' = x \cup Inv
ChartSig(item) == item \in {"s:A", "s:B", "s:C"} \/ Numbered(item)
QOp ==
  LET ao == E[2] op == E[3] item == E[4] th == E[5] after == E[6] IN
  CASE op = "append" ->
         IF BackOK(ao, item, after) THEN Put(ao, "f", item, after) /\ SetBad(Chk("f" \in OwedEnd(ao, item, th), "WrongEnd"))
         ELSE Keep /\ SetBad({"PostBack"})
    [] op = "appendleft" ->
         IF FrontOK(ao, item, after) THEN Put(ao, "l", item, after) /\ SetBad(Chk("l" \in OwedEnd(ao, item, th), "WrongEnd"))
         ELSE Keep /\ SetBad({"PostFront"})
    [] op = "popleft" ->
         IF TakeOK(ao, item) /\ Tail(q[ao]) = after
         THEN (IF ChartSig(item) THEN Take(ao, item) ELSE TakeSilent(ao, item))
              (* C13: stopping the fabric halts every object at its next wake-up - a step that was already under way may finish, no more *)
              /\ SetBad(Chk(th = "ao_" \o ao, "ForeignPop") \cup Chk(~fabDown \/ ao \notin grace, "StepAfterFabricStop"))
         ELSE Keep /\ SetBad(IF st[ao] = "stopped" THEN {"StepAfterStop"} ELSE IF taken[ao] # "" THEN {"RtcOverlap"} ELSE {"Pop"})
    [] op = "rotate" -> IF RotateOK(ao, after) THEN Rotate(ao, after) /\ SetBad({}) ELSE Keep /\ SetBad({"RotateNotFull"})
    [] op = "clear" -> IF ClearOK(ao) THEN Clear(ao) /\ SetBad({}) ELSE Keep /\ SetBad({"PendingEventsCleared"})
    [] OTHER -> Keep /\ SetBad({"UnmodelledQueueOp"})

Fab ==
  /\ fabDown' = (IF E[1] = "ret" /\ E[2] = "fstop" THEN TRUE ELSE IF E[1] = "call" /\ E[2] = "fstart" THEN FALSE ELSE fabDown)
  /\ grace' = (IF E[1] = "ret" /\ E[2] = "fstop" THEN {} ELSE IF E[1] = "call" /\ E[2] = "fstart" THEN {}
               ELSE IF fabDown /\ E[1] = "qop" /\ E[3] = "popleft" THEN grace \cup {E[2]} ELSE grace)
  /\ woken' = (IF E[1] = "ret" /\ E[2] = "fstop" THEN {} ELSE IF fabDown /\ E[1] = "qop" /\ E[3] \in {"append", "appendleft"} THEN woken \cup {E[2]} ELSE woken)
Step ==
  CASE E[1] = "qop" -> QOp /\ UNCHANGED <<kindOf, srcKind>>
    [] E[1] = "disp" ->
         (IF DispatchOK(E[2], ItemOf(E[3], E[4])) THEN Dispatch(E[2], ItemOf(E[3], E[4])) /\ SetBad({})
          ELSE Keep /\ SetBad(IF st[E[2]] = "stopped" THEN {"DispatchAfterStop"} ELSE {"DispatchNotTaken"}))
         /\ UNCHANGED <<kindOf, srcKind>>
    [] E[1] = "call" /\ E[2] = "start" -> (IF st[E[3]] = "new" THEN Start(E[3]) ELSE Keep) /\ SetBad({}) /\ UNCHANGED <<kindOf, srcKind>>
    [] E[1] = "call" /\ E[2] = "stop" -> StopCall(E[3]) /\ SetBad({}) /\ UNCHANGED <<kindOf, srcKind>>
    [] E[1] = "ret" /\ E[2] = "stop" ->
         (* stop() called from the object's own handler returns inside the step; from another thread it returns when the thread has ended *)
         StopRet(E[3]) /\ SetBad(Chk(E[4] = "handler" \/ taken[E[3]] = "", "StopDuringStep")) /\ UNCHANGED <<kindOf, srcKind>>
    [] E[1] = "call" /\ E[2] = "post" -> kindOf' = kindOf \cup {<<ItemOf("", E[5]), E[3], E[4]>>} /\ Keep /\ SetBad({}) /\ UNCHANGED srcKind
    [] E[1] = "call" /\ E[2] = "tpost" -> srcKind' = srcKind \cup {<<"tm" \o ToString(E[4]), E[3], E[5]>>} /\ Keep /\ SetBad({}) /\ UNCHANGED kindOf
    [] OTHER -> Keep /\ SetBad({}) /\ UNCHANGED <<kindOf, srcKind>>

Quiet == T.end.outcome = "quiescent" /\ T.end.drivers_done
Final ==
     Chk(T.end.outcome # "bound", "NoProgress") \cup Chk(T.end.outcome # "error", "Error")
  \cup Chk(T.end.outcome # "quiescent" \/ T.end.drivers_done, "Hang")
  (* once no thread has work left a running object's queue is empty and no event is stuck between take and dispatch (C04) *)
  \cup Chk(~Quiet \/ \A a \in AOSet : (st[a] = "running" /\ T.end.fabric_up) => q[a] = <<>>, "LostWake")
  \cup Chk(~Quiet \/ \A a \in AOSet : taken[a] = "", "TakenNotDispatched")
  (* C13: with the fabric stopped, every object that was woken since has ended its thread *)
  \cup Chk(~Quiet \/ ~fabDown \/ \A a \in woken : ("ao_" \o a) \notin {T.end.alive[k] : k \in 1..Len(T.end.alive)}, "NotHaltedByFabricStop")
  \cup Inv

TNext ==
  /\ bad = {} /\ l <= Len(T.ev) + 1 /\ tid' = tid /\ l' = l + 1
  /\ IF l <= Len(T.ev) THEN Step /\ Fab ELSE bad' = Final /\ Keep /\ UNCHANGED <<kindOf, srcKind, fabDown, grace, woken>>
  /\ IF bad' # {} THEN PrintT(ToJson([tid |-> T.tid, at |-> l, bad |-> bad', ev |-> IF l <= Len(T.ev) THEN E ELSE <<>>, prev |-> IF l >= 2 THEN T.ev[l - 1] ELSE <<>>, q |-> q, taken |-> taken, st |-> st]))
     ELSE IF l = Len(T.ev) + 1 THEN PrintT(ToJson([tid |-> T.tid, done |-> l, dispatched |-> [a \in AOSet |-> Len(hist[a])]])) ELSE TRUE
(* the state invariants of System.tla are evaluated as clauses (total verdicts), one trace's failure must not stop the batch *)
TSpec == TInit /\ [][TNext]_tv
=============================================================================
