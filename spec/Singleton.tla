------------------------------ MODULE Singleton ------------------------------
(* C30: SingletonDecorator.__call__ under concurrent first requests, one label per access to  *)
(* the shared `instance` slot / the constructor.  Variant "asis": check-then-act;             *)
(* Variant "locked": test again under a lock before constructing.                             *)
EXTENDS Naturals, Sequences, FiniteSets, TLC
CONSTANTS Threads, Variant
Locked == Variant = "locked"
(* --algorithm Singleton {
variables instance = 0, made = 0, lock = "free", got = [t \in Threads |-> 0];
process (th \in Threads)
variables seen = 0;
{
 s_read:  seen := instance;                                      \* if self.instance is None
          if (seen # 0) { goto s_ret };
 s_lock:  if (Locked) { await lock = "free"; lock := self;
 s_again:   seen := instance;                                    \* test again under the lock
            if (seen # 0) { lock := "free"; goto s_ret } };
 s_make:  made := made + 1; seen := made;                        \* the constructor runs
 s_write: instance := seen;
          if (Locked) { lock := "free" };
 s_ret:   got[self] := instance;                                 \* return self.instance
}
} *)
\* BEGIN TRANSLATION
VARIABLES pc, instance, made, lock, got, seen

vars == << pc, instance, made, lock, got, seen >>

ProcSet == (Threads)

Init == (* Global variables *)
        /\ instance = 0
        /\ made = 0
        /\ lock = "free"
        /\ got = [t \in Threads |-> 0]
        (* Process th *)
        /\ seen = [self \in Threads |-> 0]
        /\ pc = [self \in ProcSet |-> "s_read"]

s_read(self) == /\ pc[self] = "s_read"
                /\ seen' = [seen EXCEPT ![self] = instance]
                /\ IF seen'[self] # 0
                      THEN /\ pc' = [pc EXCEPT ![self] = "s_ret"]
                      ELSE /\ pc' = [pc EXCEPT ![self] = "s_lock"]
                /\ UNCHANGED << instance, made, lock, got >>

s_lock(self) == /\ pc[self] = "s_lock"
                /\ IF Locked
                      THEN /\ lock = "free"
                           /\ lock' = self
                           /\ pc' = [pc EXCEPT ![self] = "s_again"]
                      ELSE /\ pc' = [pc EXCEPT ![self] = "s_make"]
                           /\ lock' = lock
                /\ UNCHANGED << instance, made, got, seen >>

s_again(self) == /\ pc[self] = "s_again"
                 /\ seen' = [seen EXCEPT ![self] = instance]
                 /\ IF seen'[self] # 0
                       THEN /\ lock' = "free"
                            /\ pc' = [pc EXCEPT ![self] = "s_ret"]
                       ELSE /\ pc' = [pc EXCEPT ![self] = "s_make"]
                            /\ lock' = lock
                 /\ UNCHANGED << instance, made, got >>

s_make(self) == /\ pc[self] = "s_make"
                /\ made' = made + 1
                /\ seen' = [seen EXCEPT ![self] = made']
                /\ pc' = [pc EXCEPT ![self] = "s_write"]
                /\ UNCHANGED << instance, lock, got >>

s_write(self) == /\ pc[self] = "s_write"
                 /\ instance' = seen[self]
                 /\ IF Locked
                       THEN /\ lock' = "free"
                       ELSE /\ TRUE
                            /\ lock' = lock
                 /\ pc' = [pc EXCEPT ![self] = "s_ret"]
                 /\ UNCHANGED << made, got, seen >>

s_ret(self) == /\ pc[self] = "s_ret"
               /\ got' = [got EXCEPT ![self] = instance]
               /\ pc' = [pc EXCEPT ![self] = "Done"]
               /\ UNCHANGED << instance, made, lock, seen >>

th(self) == s_read(self) \/ s_lock(self) \/ s_again(self) \/ s_make(self)
               \/ s_write(self) \/ s_ret(self)

(* Allow infinite stuttering to prevent deadlock on termination. *)
Terminating == /\ \A self \in ProcSet: pc[self] = "Done"
               /\ UNCHANGED vars

Next == (\E self \in Threads: th(self))
           \/ Terminating

Spec == Init /\ [][Next]_vars

Termination == <>(\A self \in ProcSet: pc[self] = "Done")

\* END TRANSLATION
AllDone == \A t \in Threads : pc[t] = "Done"
OneInstance == made <= 1
SameForAll == AllDone => \A a, b \in Threads : got[a] = got[b] /\ got[a] = instance /\ got[a] # 0
=============================================================================
