------------------------------ MODULE AOSeqTrace ------------------------------
(* Trace validation for AOSeq.tla: recorded single-threaded operation sequences on the real *)
(* LockingDeque; total verdicts naming the failing clause.                                  *)
EXTENDS AOSeq, Json, IOUtils, TLCExt
(* ---- trace validation ---- *)
All == ndJsonDeserialize(IOEnv.TRACE_FILE)
VARIABLES tid, l, bad
tv == <<avars, n, tid, l, bad>>
T == All[tid]
E == T.ops[l]
TInit == tid \in DOMAIN All /\ l = 1 /\ bad = {} /\ AInit /\ n = 0
Chk(ok, name) == IF ok THEN {} ELSE {name}
Common == Chk(E[6] = "ok", "Raised") \cup Chk(Len(E[4]) <= Cap, "Bound") \cup Chk(E[5] = Len(E[4]), "Tokens")
TStep ==
  CASE E[1] = "append" ->
         (IF E[6] = "ok" /\ PostBackOK(E[2], E[4]) THEN PostBack(E[2], E[4]) /\ bad' = Common
          ELSE bad' = Common \cup {"NewNotAtBack"} /\ UNCHANGED avars)
    [] E[1] = "appendleft" ->
         (IF E[6] = "ok" /\ PostFrontOK(E[2], E[4]) THEN PostFront(E[2], E[4]) /\ bad' = Common
          ELSE bad' = Common \cup {"NewNotAtFront"} /\ UNCHANGED avars)
    [] E[1] = "popleft" ->
         (IF E[6] = "ok" /\ PopOK(E[3]) /\ E[4] = Tail(dq) THEN Pop(E[3]) /\ bad' = Common
          ELSE bad' = Common \cup {"Pop"} /\ UNCHANGED avars)
    [] E[1] = "pop" ->
         (IF E[6] = "ok" /\ PopBackOK(E[3]) /\ E[4] = SubSeq(dq, 1, Len(dq) - 1) THEN PopBack(E[3]) /\ bad' = Common
          ELSE bad' = Common \cup {"Pop"} /\ UNCHANGED avars)
    [] E[1] = "clear" ->
         (IF E[6] = "ok" /\ E[4] = <<>> THEN Clear /\ bad' = Common ELSE bad' = Common \cup {"Clear"} /\ UNCHANGED avars)
    [] E[1] = "len" -> bad' = Common \cup Chk(E[3] = Len(dq) /\ E[4] = dq, "Len") /\ UNCHANGED avars
    (* the consumer took the wake-up token of the front event and has not taken the event yet: one token fewer than events *)
    [] E[1] = "wait" -> bad' = Chk(E[6] = "ok" /\ E[4] = dq /\ E[5] + 1 = Len(dq), "Wait") /\ UNCHANGED avars
    [] E[1] = "wait_empty" -> bad' = Chk(dq = <<>> /\ E[6] = "raised:Empty" /\ E[4] = dq, "WaitEmpty") /\ UNCHANGED avars
TNext == /\ bad = {} /\ l <= Len(T.ops) /\ tid' = tid /\ l' = l + 1 /\ n' = n
         /\ TStep
         /\ IF bad' # {} THEN PrintT(ToJson([tid |-> T.tid, at |-> l, bad |-> bad', dq |-> dq, op |-> E]))
            ELSE IF l = Len(T.ops) THEN PrintT(ToJson([tid |-> T.tid, done |-> l])) ELSE TRUE
TSpec == TInit /\ [][TNext]_tv
=============================================================================
