---------------------------- MODULE SingletonInv ----------------------------
(* The inductive invariant of the locked variant of Singleton.tla (used by SingletonProof.tla; checked by TLC on small instances). *)
EXTENDS Singleton

ASSUME LockedVariant == Variant = "locked"
ASSUME FreeNotAThread == "free" \notin Threads

Labels == {"s_read", "s_lock", "s_again", "s_make", "s_write", "s_ret", "Done"}
Holding(t) == pc[t] \in {"s_again", "s_make", "s_write"}

Inv ==
  /\ pc \in [Threads -> Labels]
  /\ seen \in [Threads -> {0, 1}]
  /\ got \in [Threads -> {0, 1}]
  /\ made \in {0, 1}
  /\ instance \in {0, 1}
  /\ lock \in Threads \cup {"free"}
  /\ \A t \in Threads : Holding(t) <=> lock = t
  /\ instance = 1 => made = 1
  /\ \A t \in Threads : pc[t] = "s_make" => made = 0 /\ instance = 0
  /\ \A t \in Threads : pc[t] = "s_write" => made = 1 /\ instance = 0 /\ seen[t] = 1
  /\ (made = 1 /\ \A t \in Threads : pc[t] # "s_write") => instance = 1
  /\ \A t \in Threads : pc[t] = "s_ret" => instance = 1
  /\ \A t \in Threads : pc[t] = "Done" => got[t] = 1 /\ instance = 1
=============================================================================
