------------------------------ MODULE SystemMC ------------------------------
(* Model-checking harness for System.tla: a small closed system in which every kind of producer  *)
(* feeds the pending-event queues of two active objects - a driver thread posting fifo and lifo,  *)
(* the two delivery threads of the fabric (an object may hold a fifo and a lifo subscription at   *)
(* once, so it is handed a publication twice), one timed source per object - while each object's   *)
(* own thread takes the front event and dispatches it, and one object is stopped at any moment.   *)
(* TLC checks that the design of System.tla has the properties the checks then demand of the      *)
(* real system: order, nothing lost, nothing handed over more often than it was queued, no step   *)
(* after stop() returned, and (liveness, under weak fairness of the objects' threads) that every  *)
(* event put into the queue of an object that keeps running is eventually dispatched.             *)
EXTENDS System
CONSTANTS AOs, MaxPosts, MaxPubs, MaxFires

VARIABLES nposts, npubs, nfires,
          pending,    \* deliveries the fabric still owes: {<<item, ao, kind>>}
          alive       \* [ao -> its thread exists]
mvars == <<svars, nposts, npubs, nfires, pending, alive>>

Subs == {<<"a1", "fifo">>, <<"a1", "lifo">>, <<"a2", "fifo">>}      \* a1 holds both kinds of subscription

MCInit == SInit(AOs) /\ nposts = 0 /\ npubs = 0 /\ nfires = 0 /\ pending = {} /\ alive = [a \in AOs |-> FALSE]

(* any queue the displacement rule allows *)
Backs(a, item)  == IF Full(q[a]) THEN {Append(RemoveAt(q[a], i), item) : i \in 1..Len(q[a])} ELSE {Append(q[a], item)}
Fronts(a, item) == IF Full(q[a]) THEN {<<item>> \o RemoveAt(q[a], i) : i \in 1..Len(q[a])} ELSE {<<item>> \o q[a]}
PutAny(a, end, item) == \E nq \in (IF end = "f" THEN Backs(a, item) ELSE Fronts(a, item)) : Put(a, end, item, nq)

Same == UNCHANGED <<nposts, npubs, nfires, pending, alive>>
DoStart(a) == Start(a) /\ alive' = [alive EXCEPT ![a] = TRUE] /\ UNCHANGED <<nposts, npubs, nfires, pending>>
DoPost(a, end) == /\ nposts < MaxPosts /\ nposts' = nposts + 1
                  /\ PutAny(a, end, "e" \o ToString(nposts + 1)) /\ UNCHANGED <<npubs, nfires, pending, alive>>
DoPublish == /\ npubs < MaxPubs /\ npubs' = npubs + 1
             /\ pending' = pending \cup {<<"e" \o ToString(100 + npubs + 1), s[1], s[2]>> : s \in Subs}
             /\ UNCHANGED <<svars, nposts, nfires, alive>>
DoDeliver == \E d \in pending : /\ PutAny(d[2], IF d[3] = "fifo" THEN "f" ELSE "l", d[1])
                                /\ pending' = pending \ {d} /\ UNCHANGED <<nposts, npubs, nfires, alive>>
DoFire(a, end) == /\ nfires < MaxFires /\ nfires' = nfires + 1 /\ st[a] # "stopped"
                  /\ PutAny(a, end, "s:T") /\ UNCHANGED <<nposts, npubs, pending, alive>>
DoTake(a) == alive[a] /\ st[a] = "running" /\ q[a] # <<>> /\ Take(a, Head(q[a])) /\ Same
DoDispatch(a) == taken[a] # "" /\ Dispatch(a, taken[a]) /\ Same
(* stop(): the flag is cleared, the wake-up item is appended, the thread ends after its current step, stop() returns *)
DoStopCall(a) == st[a] = "running" /\ StopCall(a) /\ Same
DoStopWake(a) == st[a] = "stopcalled" /\ alive[a] /\ (\A i \in 1..Len(q[a]) : q[a][i] # "s:STOP") /\ PutAny(a, "f", "s:STOP") /\ Same
DoThreadEnd(a) == st[a] = "stopcalled" /\ alive[a] /\ taken[a] = "" /\ alive' = [alive EXCEPT ![a] = FALSE]
                  /\ UNCHANGED <<svars, nposts, npubs, nfires, pending>>
DoStopRet(a) == st[a] = "stopcalled" /\ ~alive[a] /\ StopRet(a) /\ Same

MCNext == \/ \E a \in AOs : DoStart(a) \/ DoTake(a) \/ DoDispatch(a) \/ DoThreadEnd(a) \/ DoStopRet(a) \/ DoStopWake(a)
          \/ \E a \in AOs, end \in {"f", "l"} : DoPost(a, end) \/ DoFire(a, end)
          \/ DoPublish \/ DoDeliver
          \/ DoStopCall("a2")
MCSpec == MCInit /\ [][MCNext]_mvars /\ \A a \in AOs : WF_mvars(DoTake(a)) /\ WF_mvars(DoDispatch(a)) /\ WF_mvars(DoStart(a))

(* every item put into the queue of an object that is never stopped is eventually dispatched, unless overflow displaced it *)
AllQueuedDispatched(a) == \A k \in 1..Len(applied[a]) : Times(hist[a], applied[a][k][2]) >= 1
EventuallyDispatched == <>[](everFull["a1"] \/ AllQueuedDispatched("a1"))
Drained == <>[](q["a1"] = <<>> /\ taken["a1"] = "")
NothingAfterStop == [](st["a2"] = "stopped" => taken["a2"] = "")
=============================================================================
