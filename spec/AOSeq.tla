-------------------------------- MODULE AOSeq --------------------------------
(* C16: an active object's queue, used by ONE thread, behaves like a bounded deque under     *)
(* append / appendleft / wait+popleft / wait+pop / clear / len, keeps the NEW event when     *)
(* full, never blocks or raises, and holds one wake-up token per pending event between       *)
(* operations.  The same actions as AO.tla; model-checked over all short operation           *)
(* sequences (SSpec) and used to validate recorded sequences on the real LockingDeque        *)
(* (TSpec; TRACE_FILE lines {"tid", "ops":[[op, id, result, dq_after, tokens_after, outcome]]}). *)
EXTENDS AO
CONSTANT MaxOps

PopBackOK(id) == dq # <<>> /\ dq[Len(dq)] = id
PopBack(id) == PopBackOK(id) /\ dq' = SubSeq(dq, 1, Len(dq) - 1) /\ popped' = Append(popped, id)
               /\ UNCHANGED <<tokens, applied, everFull>>

(* ---- model checking: every sequence of MaxOps operations, ids 1..MaxOps ---- *)
VARIABLE n
AppR(s, x) == IF Len(s) >= Cap THEN Append(SubSeq(s, 1, Len(s) - 1), x) ELSE Append(s, x)   \* gives up the back (pinned by the suite)
AppL(s, x) == IF Len(s) >= Cap THEN <<x>> \o SubSeq(s, 1, Len(s) - 1) ELSE <<x>> \o s
SInit == AInit /\ n = 0
(* operations as single atomic steps with the token count restored to Len(dq) *)
SOp(ndq, napplied, npopped) ==
  /\ dq' = ndq /\ applied' = napplied /\ popped' = npopped /\ tokens' = Len(ndq)
  /\ everFull' = (everFull \/ Full(dq) \/ Full(ndq))
SStep == /\ n < MaxOps /\ n' = n + 1
         /\ \/ SOp(AppR(dq, n + 1), Append(applied, <<"f", n + 1>>), popped)
            \/ SOp(AppL(dq, n + 1), Append(applied, <<"l", n + 1>>), popped)
            \/ dq # <<>> /\ SOp(Tail(dq), applied, Append(popped, Head(dq)))
            \/ dq # <<>> /\ SOp(SubSeq(dq, 1, Len(dq) - 1), applied, Append(popped, dq[Len(dq)]))
            \/ SOp(<<>>, applied, popped \o dq)     \* clear: everything pending is removed
SSpec == SInit /\ [][SStep]_<<avars, n>>
TokenPerEvent == tokens = Len(dq)
NewEventKept  == [][(Len(applied') > Len(applied)) =>
                      LET a == applied'[Len(applied')] IN
                        IF a[1] = "f" THEN dq'[Len(dq')] = a[2] ELSE dq'[1] = a[2]]_<<avars, n>>
FifoWhenNoOverflow == (~everFull /\ \A k \in 1..Len(applied) : applied[k][1] = "f")
                        => dq = Removed([k \in 1..Len(applied) |-> applied[k][2]], Ids(popped))

=============================================================================
