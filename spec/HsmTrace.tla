------------------------------ MODULE HsmTrace ------------------------------
(* Trace validation for Hsm.tla: every line of TRACE_FILE is one recorded execution of  *)
(* the real miros code ({"tid", "chart", "ev":[op records]}); all of them are checked in *)
(* one TLC run (Init picks the trace).  Each op record is consumed by the corresponding *)
(* Hsm action; the new specification state is then compared, clause by clause, with     *)
(* what the real code was observed to do.  The verdict is total: the first op at which  *)
(* a clause fails is reported with the names of the failing clauses; a trace that is    *)
(* consumed to its end is reported as done.                                             *)
EXTENDS Hsm, Json, IOUtils, TLCExt

All == ndJsonDeserialize(IOEnv.TRACE_FILE)

VARIABLES tid, l, bad
tvars == <<vars, tid, l, bad>>

Tr == All[tid].ev
E  == Tr[l]

TInit == /\ tid \in DOMAIN All /\ l = 1 /\ bad = {} /\ Init0(All[tid].chart)

IsVisible(c) == c[1] \in Inner3 \/ c[1] \in SeqSet(chart.sigs)
Visible(log) == SelectSeq(log, IsVisible)
SigSt(s)     == [i \in 1..Len(s) |-> <<s[i][1], s[i][2]>>]
MarksOf(log) == [i \in 1..Len(log) |-> log[i][4]]
AMarks(s)    == [i \in 1..Len(s) |-> s[i][3]]

(* static builds (C17): a generated-by-hand / template / Factory / to_code chart only logs the *)
(* callbacks that were registered; unregistered entries, exits, inits and offers are seen   *)
(* through miros' own spy instead (E.spycalls)                                              *)
Static == chart.build # "dyn"
Registered(c) == \E i \in 1..Len(chart.reg) : chart.reg[i][1] = c[2] /\ chart.reg[i][2] = c[1]
Build == E.k = "build" /\ res' = "ok" /\ alog' = <<>> /\ did' = 0 /\ liveS' = <<>> /\ liveT' = <<>>
         /\ UNCHANGED <<chart, started, cur, q, dq, nid, rtc, full, trc, hist>>

Op ==
  \/ Build
  \/ E.k = "start" /\ Start(E.arg, E.log)
  \/ E.k = "dispatch" /\ Dispatch(E.arg, E.log)
  \/ E.k \in {"post_fifo", "post_lifo", "defer", "scribble"} /\ External(<<E.k, E.arg>>)
  \/ E.k = "recall" /\ External(<<"recall">>)
  \/ E.k = "next_rtc" /\ NextRtc(E.log)
  \/ E.k = "is_in" /\ IsIn(E.arg, E.log)
  \/ E.k = "child_state" /\ ChildState(E.arg, E.log)
  \/ E.k = "circuit_end" /\ CircuitEnd
  \/ E.k = "clear_spy" /\ ClearSpy
  \/ E.k = "clear_trace" /\ ClearTrace

StepOp  == E.k \in {"start", "dispatch", "next_rtc"}
ExtOp   == E.k \in {"post_fifo", "post_lifo", "defer", "scribble", "recall"}
Raises  == res' = "raise"
Faults  == res' = "fault"        \* a handler of this step failed (the chart's own exception propagates)
ExpOutcome == IF Faults THEN "raised:ChartFault"
              ELSE IF ~Raises THEN "ok"
              ELSE IF E.k = "child_state" THEN "raised:AssertionError" ELSE "raised:HsmTopologyException"

(* the clauses; each is TRUE when the observation agrees with the specification *)
(* fault "nosuper" (C24): one state returns no status when it is asked for its super state (a handler without a final else     *)
(* clause).  Whenever the processor has to ask it, the op must raise HsmTopologyException - never hang, never fail otherwise;     *)
(* when it does not have to, the op behaves as on the well-formed chart.  start_at(S) has to ask every state enclosing S.          *)
NoSuper   == chart.bad # <<>> /\ chart.bad[1] = "nosuper"
MustRaise == NoSuper /\ E.k = "start" /\ chart.bad[2] \in SeqSet(Up(chart.par, E.arg))
C_Outcome == IF NoSuper /\ E.k # "child_state"
             THEN E.outcome \in {"ok", "raised:HsmTopologyException"} /\ (MustRaise => E.outcome # "ok")
             ELSE IF NoSuper THEN E.outcome \in {ExpOutcome, "raised:HsmTopologyException"}
             ELSE E.outcome = ExpOutcome
C_Calls   == IF Static THEN SigSt(Visible(E.log)) = SigSt(SelectSeq(alog', Registered))
             ELSE SigSt(Visible(E.log)) = SigSt(alog')
C_SpyCalls == (Static /\ Instr /\ StepOp) => Visible(E.spycalls) = SigSt(alog')
C_Marks   == /\ MarksOf(Visible(E.log)) = AMarks(IF Static THEN SelectSeq(alog', Registered) ELSE alog')
             /\ ExtOp => (Len(E.marks) = 1 /\ E.marks[1][1] = E.k)
             /\ ~ExtOp => E.marks = <<>>
C_Cur     == started' => (E.cur = cur' /\ E.temp = cur')
C_Name    == StepOp => (E.name = Name(cur') /\ E.fn = cur')
C_CurState == (Queued /\ started') => E.cs = (IF Instr THEN Name(cur') ELSE "")
C_Ret     == CASE E.k = "next_rtc" -> E.ret = res'
               [] E.k \in {"is_in", "child_state"} -> E.ret = res'
               [] E.k = "recall" -> (Len(E.marks) = 1 /\ E.marks[1][2] = res')
               [] OTHER -> TRUE
C_Instr   == (started' /\ chart.host # "plain") => E.instr = Instr
(* a second start_at on a running INSTRUMENTED chart: what the spy, the trace and the live output record for it is not specified *)
(* by any property (the harness only does it as the last op of a sequence); the chart's behaviour (Calls, Cur, Outcome) is        *)
Restart   == E.k = "start" /\ started
C_Rtc     == (started' /\ Instr /\ ~Static /\ ~Restart) => E.rtc = rtc'
C_Full    == (started' /\ Instr /\ ~Static /\ ~Restart) => E.full = full'
C_Trc     == (started' /\ Instr /\ ~Restart) => E.trc = trc'
C_LiveS   == Restart \/ E.live_spy = liveS'
C_LiveT   == Restart \/ E.live_trc = liveT'
ProjQ(s)  == [i \in 1..Len(s) |-> <<s[i][1], s[i][2]>>]
C_Q       == Queued => ProjQ(E.q) = q'
C_DQ      == Queued => ProjQ(E.dq) = dq'
(* C14: complete_circuit returns only when the queue is empty *)
C_Circuit == E.k = "circuit_end" => (q' = <<>> /\ E.q = <<>>)
C_Did     == (E.k = "next_rtc" /\ did' # 0) =>
               \A i \in 1..Len(E.log) : E.log[i][1] \in SeqSet(chart.sigs) => E.log[i][5] = did'

Failing ==
  IF Faults /\ C_Outcome
    THEN (* the failed step consumed its event: it is not put back, and what the handlers had posted stays posted *)
         (IF C_Q THEN {} ELSE {"Q"}) \cup (IF C_DQ THEN {} ELSE {"DQ"}) \cup (IF C_Did THEN {} ELSE {"Did"})
  ELSE IF E.k = "child_state" /\ Raises /\ C_Outcome
    THEN (* a query that fails still changes nothing *)
         (IF C_Cur THEN {} ELSE {"Cur"}) \cup (IF C_Calls THEN {} ELSE {"Calls"})
  ELSE IF Raises \/ E.outcome # "ok" THEN (IF C_Outcome THEN {} ELSE {"Outcome"})
  ELSE    (IF C_Outcome THEN {} ELSE {"Outcome"}) \cup (IF C_Calls THEN {} ELSE {"Calls"})
     \cup (IF C_Marks THEN {} ELSE {"Marks"}) \cup (IF C_Cur THEN {} ELSE {"Cur"})
     \cup (IF C_Name THEN {} ELSE {"Name"}) \cup (IF C_CurState THEN {} ELSE {"CurState"})
     \cup (IF C_Ret THEN {} ELSE {"Ret"}) \cup (IF C_Instr THEN {} ELSE {"Instr"})
     \cup (IF C_Rtc THEN {} ELSE {"Rtc"}) \cup (IF C_Full THEN {} ELSE {"Full"})
     \cup (IF C_Trc THEN {} ELSE {"Trc"}) \cup (IF C_LiveS THEN {} ELSE {"LiveS"})
     \cup (IF C_LiveT THEN {} ELSE {"LiveT"}) \cup (IF C_Q THEN {} ELSE {"Q"})
     \cup (IF C_DQ THEN {} ELSE {"DQ"}) \cup (IF C_Did THEN {} ELSE {"Did"})
     \cup (IF C_SpyCalls THEN {} ELSE {"SpyCalls"}) \cup (IF C_Circuit THEN {} ELSE {"Circuit"})

Kind == IF StepOp /\ ~Raises /\ started /\ E.k # "start"
        THEN (IF cur' # cur \/ \E i \in 1..Len(alog') : alog'[i][1] = "EXIT_SIGNAL" THEN "tran" ELSE "stay")
        ELSE E.k

(* which property a failing clause speaks about (the same table as harness/seqcheck.py) *)
StepProp == CASE Kind = "start" -> "C03" [] Kind = "tran" -> "C01" [] Kind = "stay" -> "C02"
              [] E.k \in {"is_in", "child_state"} -> "C22" [] E.k \in {"start"} -> "C03"
              [] E.k \in {"dispatch", "next_rtc"} -> "C01" [] OTHER -> "C14"
PropOf(c) ==
  CASE c \in {"Calls", "Cur"} -> StepProp
    [] c = "Outcome" -> IF (NoSuper \/ ExpOutcome \notin {"ok", "raised:ChartFault"}) /\ E.k # "child_state" THEN "C24" ELSE StepProp
    [] c = "Marks" -> IF E.k = "recall" THEN "C15" ELSE "C14"
    [] c \in {"Name", "CurState"} -> "C23"
    [] c = "Ret" -> IF E.k = "next_rtc" THEN "C14" ELSE IF E.k = "recall" THEN "C15" ELSE "C22"
    [] c \in {"Instr", "Rtc", "Full"} -> "C19"
    [] c = "Trc" -> "C20"
    [] c \in {"LiveS", "LiveT"} -> "C21"
    [] c \in {"Q", "Did", "Circuit"} -> "C14"
    [] c = "DQ" -> "C15"
    [] OTHER -> "C17"
(* FOCUS = a property id: only clauses that speak about that property end the trace; the    *)
(* others are noted and the trace goes on from the specification's state, so that a defect  *)
(* first visible to another property's clause does not hide its consequences for this one.  *)
(* FOCUS = "" : every failing clause ends the trace.                                        *)
Focus == IOEnv.FOCUS
Fatal(S) == IF Focus = "" THEN S ELSE {c \in S : PropOf(c) = Focus}

Report ==
  IF bad' # {}
  THEN PrintT(ToJson([tid |-> All[tid].tid, at |-> l, k |-> E.k, kind |-> Kind, bad |-> bad',
                      exp |-> [alog |-> alog', cur |-> cur', res |-> res', rtc |-> rtc', trc |-> trc',
                               q |-> q', dq |-> dq', liveT |-> liveT',
                               outcome |-> IF NoSuper THEN "ok or raised:HsmTopologyException" ELSE ExpOutcome]]))
  ELSE IF l = Len(Tr) THEN PrintT(ToJson([tid |-> All[tid].tid, done |-> l])) ELSE TRUE

TNext == /\ bad = {} /\ l <= Len(Tr)
         /\ Op
         /\ l' = l + 1 /\ tid' = tid
         /\ bad' = Fatal(Failing)
         /\ Report

TSpec == TInit /\ [][TNext]_tvars
=============================================================================
