---------------------------- MODULE SignalsTrace ----------------------------
(* C25: recorded concurrent uses of the real signal registry (harness/utildrive.py).  Every     *)
(* <<name, number>> binding any operation reported, and the final registry, must be one          *)
(* injective, never-changing function with positive numbers; the ten built-ins are the only      *)
(* inner signals; no operation fails.  {"tid","ev":[[thread, op, name, number, text, outcome]],"final":[[name,number]],...} *)
EXTENDS Naturals, Sequences, FiniteSets, TLC, Json, IOUtils, TLCExt
All == ndJsonDeserialize(IOEnv.TRACE_FILE)
VARIABLES tid, l, bad, seen
T == All[tid]
Chk(ok, name) == IF ok THEN {} ELSE {name}
Builtin == {"ENTRY_SIGNAL", "EXIT_SIGNAL", "INIT_SIGNAL", "REFLECTION_SIGNAL", "EMPTY_SIGNAL", "SEARCH_FOR_SUPER_SIGNAL",
            "STOP_FABRIC_SIGNAL", "STOP_ACTIVE_OBJECT_SIGNAL", "SUBSCRIBE_META_SIGNAL", "PUBLISH_META_SIGNAL"}
TInit == tid \in DOMAIN All /\ l = 1 /\ bad = {} /\ seen = {}
Consistent(S) == \A p, r \in S : (p[1] = r[1]) = (p[2] = r[2])          \* one-to-one and stable
E == T.ev[l]
Pairs(e) == IF e[6] # "ok" THEN {}
            ELSE IF e[2] = "attr" THEN {<<e[3], e[4]>>}
            ELSE IF e[2] \in {"ev_name", "ev_num", "name_for"} THEN {<<e[5], e[4]>>}
            ELSE {}
Step == /\ seen' = seen \cup Pairs(E)
        /\ bad' = Chk(E[6] \in {"ok", "skipped"}, "Error") \cup Chk(Consistent(seen'), "NotOneToOne")
                  \cup Chk(\A p \in Pairs(E) : p[2] > 0, "NotPositive")
                  \cup Chk(E[2] # "ev_name" \/ E[6] # "ok" \/ E[5] = E[3], "WrongName")
                  \cup Chk(E[2] # "inner" \/ E[6] # "ok" \/ (E[5] = "T") = (E[3] \in Builtin), "Inner")
Final == LET F == {<<T.final[i][1], T.final[i][2]>> : i \in 1..Len(T.final)}
         IN Chk(Consistent(F \cup seen), "Renumbered") \cup Chk(T.outcome = "quiescent" /\ T.done /\ T.errors = 0, "Hang")
            \cup Chk(\A i \in 1..Len(T.ev) : T.ev[i][2] \notin {"append", "attr", "ev_name"} \/ T.ev[i][6] # "ok"
                        \/ \E p \in F : p[1] = T.ev[i][3], "NotRegistered")
TNext == /\ bad = {} /\ l <= Len(T.ev) + 1 /\ tid' = tid /\ l' = l + 1
         /\ IF l <= Len(T.ev) THEN Step ELSE bad' = Final /\ seen' = seen
         /\ IF bad' # {} THEN PrintT(ToJson([tid |-> T.tid, at |-> l, bad |-> bad']))
            ELSE IF l = Len(T.ev) + 1 THEN PrintT(ToJson([tid |-> T.tid, done |-> l])) ELSE TRUE
TSpec == TInit /\ [][TNext]_<<tid, l, bad, seen>>
=============================================================================
