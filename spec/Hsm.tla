-------------------------------- MODULE Hsm --------------------------------
(* Reference semantics of a miros chart hosted by an event processor                    *)
(* (HsmEventProcessor / InstrumentedHsmEventProcessor / HsmWithQueues).                 *)
(*                                                                                      *)
(* One action per public call (start_at, dispatch, post_fifo, post_lifo, defer, recall, *)
(* next_rtc, complete_circuit, is_in, child_state, scribble, clear_spy, clear_trace).   *)
(* What a step must do is computed from the chart's TABLE (tree, initial transitions,   *)
(* reactions, side effects) with Tree.tla - never from Samek's topology search - so the *)
(* implementation (hsm.py) and its line-by-line transcription (HsmAlgo.tla) are both    *)
(* judged against it.                                                                   *)
(*                                                                                      *)
(* The chart is a variable that never changes, so that the trace specification can bind *)
(* a different chart to every recorded trace (HsmTrace.tla) and the model-checking      *)
(* harness can quantify over all small charts (HsmMC.tla).                              *)
EXTENDS Tree, TLC

VARIABLES
  chart,    \* [n, par, init, sigs, react, eff, cap, spy_ring, trc_ring, live_spy, live_trace, host, spied, bad, build, reg]
  started,  \* start_at has run
  cur,      \* the state the chart rests in (0 before start)
  q, dq,    \* pending and deferred events, each <<signal, id>>
  nid,      \* ids handed out so far (every created event gets the next id)
  alog,     \* visible handler calls prescribed for the last op: <<signal, state, marks>>
  did,      \* id of the event dispatched by the last op (0: none)
  res,      \* result of the last op
  rtc,      \* spy of the current step          (instrumented hosts)
  full,     \* full spy, ring of chart.spy_ring
  trc,      \* trace records <<from, signal, to>>, ring of chart.trc_ring
  liveS,    \* lines handed to the live-spy callback by the last op
  liveT,    \* records handed to the live-trace callback by the last op
  hist      \* ids dispatched so far (history)

vars == <<chart, started, cur, q, dq, nid, alog, did, res, rtc, full, trc, liveS, liveT, hist>>

Instr  == chart.host # "plain" /\ chart.spied
Queued == chart.host \in {"queued", "factory"}
States == 1..chart.n

(* the __name__ of a state function: unique names s1, s2, .. unless the chart says otherwise (several states may share a name) *)
Name(s)     == IF s = 0 THEN "top" ELSE IF "names" \in DOMAIN chart THEN chart.names[s] ELSE "s" \o ToString(s)
Tag(sg, ss) == [i \in 1..Len(ss) |-> <<sg, ss[i]>>]
Inner3      == {"ENTRY_SIGNAL", "EXIT_SIGNAL", "INIT_SIGNAL"}
InnerSig(sg) == sg \in Inner3 \cup {"REFLECTION_SIGNAL", "EMPTY_SIGNAL", "SEARCH_FOR_SUPER_SIGNAL",
                  "STOP_FABRIC_SIGNAL", "STOP_ACTIVE_OBJECT_SIGNAL", "SUBSCRIBE_META_SIGNAL", "PUBLISH_META_SIGNAL"}

----------------------------------------------------------------------------
(* The chart table *)
SigIdx(sg)      == CHOOSE k \in 1..Len(chart.sigs) : chart.sigs[k] = sg
React(st, sg)   == chart.react[st][SigIdx(sg)]                  \* <<kind, target>>
(* "null": the handler answers return_status.NULL ("no side effects") - it answers the event, nothing else happens *)
Answers(st, sg) == React(st, sg)[1] \in {"hook", "tran", "null"}
BadInit(st)     == chart.bad # <<>> /\ chart.bad[1] = "init" /\ chart.bad[2] = st
BadNone(st, sg) == chart.bad # <<>> /\ chart.bad[1] = "none" /\ chart.bad[2] = st /\ chart.bad[3] = sg
Eff(st, sg) ==
  LET I == {i \in 1..Len(chart.eff) : chart.eff[i][1] = st /\ chart.eff[i][2] = sg}
  IN IF I = {} THEN <<>> ELSE chart.eff[CHOOSE i \in I : TRUE][3]

(* C02: the event is offered to cur, then to each enclosing state, until one answers *)
RECURSIVE Bubble(_, _)
Bubble(st, sg) == IF st = 0 THEN <<>>
                  ELSE IF Answers(st, sg) \/ BadNone(st, sg) THEN <<st>>
                  ELSE <<st>> \o Bubble(chart.par[st], sg)

(* C01/C03: follow initial transitions from t; every intermediate state is entered *)
RECURSIVE Drill(_)
Drill(t) ==
  IF BadInit(t) THEN [calls |-> <<<<"INIT_SIGNAL", t>>>>, rest |-> t, raise |-> TRUE]
  ELSE IF chart.init[t] = 0 THEN [calls |-> <<<<"INIT_SIGNAL", t>>>>, rest |-> t, raise |-> FALSE]
  ELSE LET d == chart.init[t]
           r == Drill(d)
       IN [calls |-> <<<<"INIT_SIGNAL", t>>>> \o Tag("ENTRY_SIGNAL", Rev(Before(Up(chart.par, d), t))) \o r.calls,
           rest |-> r.rest, raise |-> r.raise]

RefStart(S) ==
  LET d == Drill(S)
  IN [calls |-> Tag("ENTRY_SIGNAL", Path(chart.par, S)) \o d.calls, cur |-> d.rest,
      kind |-> IF d.raise THEN "raise" ELSE "tran"]

RefStep(c, sg) ==
  LET offers == Bubble(c, sg)
      last   == IF offers = <<>> THEN 0 ELSE offers[Len(offers)]
  IN IF last # 0 /\ BadNone(last, sg) THEN [calls |-> Tag(sg, offers), cur |-> c, kind |-> "raise"]
     ELSE IF last = 0 \/ ~Answers(last, sg) THEN [calls |-> Tag(sg, offers), cur |-> c, kind |-> "ignored"]
     ELSE IF React(last, sg)[1] \in {"hook", "null"} THEN [calls |-> Tag(sg, offers), cur |-> c, kind |-> "hook"]
     ELSE LET T == React(last, sg)[2]
              L == LCA(chart.par, last, T)
              d == Drill(T)
          IN [calls |-> Tag(sg, offers) \o Tag("EXIT_SIGNAL", ExitStates(chart.par, c, L))
                          \o Tag("ENTRY_SIGNAL", EntryStates(chart.par, T, L)) \o d.calls,
              cur |-> d.rest, kind |-> IF d.raise THEN "raise" ELSE "tran"]

----------------------------------------------------------------------------
(* Bounded deques (C16): a full queue never blocks and keeps the NEW event *)
AppR(s, x) == IF Len(s) >= chart.cap THEN Append(Tail(s), x) ELSE Append(s, x)
AppL(s, x) == IF Len(s) >= chart.cap THEN <<x>> \o SubSeq(s, 1, Len(s) - 1) ELSE <<x>> \o s
Ring(s, k) == IF Len(s) <= k THEN s ELSE SubSeq(s, Len(s) - k + 1, Len(s))

(* side effects a handler may have; S = [q, dq, nid] *)
ApplyEff(S, ef) ==
  CASE ef[1] = "post_fifo" -> [q |-> AppR(S.q, <<ef[2], S.nid + 1>>), dq |-> S.dq, nid |-> S.nid + 1,
                               mark |-> <<"post_fifo", ef[2], S.nid + 1>>]
    [] ef[1] = "post_lifo" -> [q |-> AppL(S.q, <<ef[2], S.nid + 1>>), dq |-> S.dq, nid |-> S.nid + 1,
                               mark |-> <<"post_lifo", ef[2], S.nid + 1>>]
    [] ef[1] = "defer"     -> [q |-> S.q, dq |-> AppR(S.dq, <<ef[2], S.nid + 1>>), nid |-> S.nid + 1,
                               mark |-> <<"defer", ef[2], S.nid + 1>>]
    [] ef[1] = "recall"    -> IF S.dq = <<>> THEN [q |-> S.q, dq |-> S.dq, nid |-> S.nid, mark |-> <<"recall", "", 0>>]
                              ELSE [q |-> AppR(S.q, Head(S.dq)), dq |-> Tail(S.dq), nid |-> S.nid,
                                    mark |-> <<"recall", Head(S.dq)[1], Head(S.dq)[2]>>]
    [] ef[1] = "scribble"  -> [q |-> S.q, dq |-> S.dq, nid |-> S.nid, mark |-> <<"scribble", ef[2], 0>>]
    [] ef[1] = "other"     -> [q |-> S.q, dq |-> S.dq, nid |-> S.nid, mark |-> <<"other", ef[2], 0>>]     \* an event dispatched into another chart object: no effect on this one
    [] ef[1] = "cs"        -> [q |-> S.q, dq |-> S.dq, nid |-> S.nid, mark |-> <<"cs", "", 0>>]        \* current_state() asked from inside a handler: no effect
    [] ef[1] = "raise"     -> [q |-> S.q, dq |-> S.dq, nid |-> S.nid, mark |-> <<"raise", "", 0>>]   \* the handler fails here

Faulted(marks) == marks # <<>> /\ marks[Len(marks)][1] = "raise"
RECURSIVE ApplyEffs(_, _, _)
ApplyEffs(S, efs, marks) ==
  IF efs = <<>> \/ Faulted(marks) THEN [q |-> S.q, dq |-> S.dq, nid |-> S.nid, marks |-> marks]
  ELSE LET r == ApplyEff(S, Head(efs)) IN ApplyEffs(r, Tail(efs), Append(marks, r.mark))

EffsOf(call) == IF call[1] \in Inner3 \/ Answers(call[2], call[1]) THEN Eff(call[2], call[1]) ELSE <<>>

(* run the handlers' side effects along the prescribed calls; a handler that fails ends the *)
(* step there: what it did before stays done, nothing of the step is undone or redone       *)
RECURSIVE RunCalls(_, _, _)
RunCalls(S, calls, out) ==
  IF calls = <<>> THEN [q |-> S.q, dq |-> S.dq, nid |-> S.nid, alog |-> out, fault |-> FALSE]
  ELSE LET c == Head(calls)
           r == ApplyEffs(S, EffsOf(c), <<>>)
       IN IF Faulted(r.marks) THEN [q |-> r.q, dq |-> r.dq, nid |-> r.nid, alog |-> Append(out, <<c[1], c[2], r.marks>>), fault |-> TRUE]
          ELSE RunCalls(r, Tail(calls), Append(out, <<c[1], c[2], r.marks>>))

----------------------------------------------------------------------------
(* C19: what the spy must show for the invocations the processor actually made.        *)
(* `log` is the processor's own full call log <<signal, state, status, marks, id>>.    *)
MarkLines(m) ==
  CASE m[1] = "post_fifo" -> <<"POST_FIFO:" \o m[2]>>
    [] m[1] = "post_lifo" -> <<"POST_LIFO:" \o m[2]>>
    [] m[1] = "defer"     -> <<"POST_DEFERRED:" \o m[2]>>
    [] m[1] = "recall"    -> IF m[2] = "" THEN <<>> ELSE <<"RECALL:" \o m[2], "POST_FIFO:" \o m[2]>>
    [] m[1] = "scribble"  -> <<m[2]>>
    [] OTHER              -> <<>>
RECURSIVE MarksLines(_)
MarksLines(ms) == IF ms = <<>> THEN <<>> ELSE MarkLines(Head(ms)) \o MarksLines(Tail(ms))
CallLines(c) ==
  IF c[1] = "REFLECTION_SIGNAL" THEN <<>>
  ELSE <<c[1] \o ":" \o Name(c[2])>> \o MarksLines(c[4])
       \o (IF ~InnerSig(c[1]) /\ c[3] = "HANDLED" THEN <<c[1] \o ":" \o Name(c[2]) \o ":HOOK">> ELSE <<>>)
RECURSIVE LogLines(_)
LogLines(log) == IF log = <<>> THEN <<>> ELSE CallLines(Head(log)) \o LogLines(Tail(log))
QR(qq, dd) == "<- Queued:(" \o ToString(Len(qq)) \o ") Deferred:(" \o ToString(Len(dd)) \o ")"

----------------------------------------------------------------------------
Init0(c) ==
  /\ chart = c /\ started = FALSE /\ cur = 0 /\ q = <<>> /\ dq = <<>> /\ nid = 0
  /\ alog = <<>> /\ did = 0 /\ res = "" /\ rtc = <<>> /\ full = <<>> /\ trc = <<>>
  /\ liveS = <<>> /\ liveT = <<>> /\ hist = <<>>

(* start_at(S).  log = the processor's full call log of this op (only feeds the spy). *)
(* (start_at on a chart that is already running starts it afresh: the path from top is entered again, nothing is exited) *)
Start(S, log) ==
  /\ S \in States
  /\ LET r     == RefStart(S)
         F     == RunCalls([q |-> q, dq |-> dq, nid |-> nid], r.calls, <<>>)
         lines == (rtc \o <<"START">>) \o LogLines(log)
         nrtc  == IF ~Instr THEN <<>> ELSE IF Queued THEN Append(lines, QR(F.q, F.dq)) ELSE lines
     IN /\ started' = TRUE /\ cur' = r.cur /\ q' = F.q /\ dq' = F.dq /\ nid' = F.nid
        /\ alog' = F.alog /\ did' = 0 /\ res' = IF F.fault THEN "fault" ELSE IF r.kind = "raise" THEN "raise" ELSE "ok"
        /\ rtc' = nrtc
        /\ full' = IF Instr THEN Ring(full \o nrtc, chart.spy_ring) ELSE <<>>
        /\ trc' = IF Instr THEN Ring(Append(trc, <<"top", "", Name(r.cur)>>), chart.trc_ring) ELSE <<>>
        /\ liveS' = IF Instr /\ Queued /\ chart.live_spy THEN nrtc ELSE <<>>
        /\ liveT' = IF Instr /\ Queued /\ chart.live_trace THEN <<<<"start_at", "top", Name(r.cur)>>>> ELSE <<>>
        /\ UNCHANGED <<chart, hist>>

(* one run-to-completion step for event <<sg, id>> from queue state S0 *)
StepFrom(sg, id, S0, log, viaQueue) ==
  LET r     == RefStep(cur, sg)
      F     == RunCalls(S0, r.calls, <<>>)
      lines == LogLines(log)
      nrtc  == IF ~Instr THEN <<>> ELSE IF viaQueue THEN Append(lines, QR(F.q, F.dq)) ELSE lines
  IN /\ cur' = r.cur /\ q' = F.q /\ dq' = F.dq /\ nid' = F.nid
     /\ alog' = F.alog /\ did' = id /\ hist' = Append(hist, id)
     /\ res' = IF F.fault THEN "fault" ELSE IF r.kind = "raise" THEN "raise" ELSE IF viaQueue THEN "T" ELSE "ok"
     /\ rtc' = nrtc
     /\ full' = IF Instr THEN Ring(full \o nrtc, chart.spy_ring) ELSE <<>>
     /\ trc' = IF Instr /\ r.kind = "tran" THEN Ring(Append(trc, <<Name(cur), sg, Name(r.cur)>>), chart.trc_ring) ELSE trc
     /\ liveS' = IF Instr /\ viaQueue /\ chart.live_spy THEN nrtc ELSE <<>>
     /\ liveT' = IF Instr /\ viaQueue /\ chart.live_trace /\ r.kind = "tran"
                 THEN <<<<sg, Name(cur), Name(r.cur)>>>> ELSE <<>>
     /\ UNCHANGED <<chart, started>>

(* dispatch(Event(sg)) called directly *)
Dispatch(sg, log) ==
  /\ started /\ sg \in SeqSet(chart.sigs)
  /\ StepFrom(sg, nid + 1, [q |-> q, dq |-> dq, nid |-> nid + 1], log, FALSE)

(* next_rtc(): exactly the front event, or nothing *)
NextRtc(log) ==
  /\ started /\ Queued
  /\ IF q = <<>>
     THEN LET nrtc == IF Instr THEN <<QR(q, dq)>> ELSE <<>>
          IN /\ res' = "F" /\ alog' = <<>> /\ did' = 0 /\ rtc' = nrtc
             /\ full' = IF Instr THEN Ring(full \o nrtc, chart.spy_ring) ELSE <<>>
             /\ liveS' = IF Instr /\ chart.live_spy THEN nrtc ELSE <<>>
             /\ liveT' = <<>>
             /\ UNCHANGED <<chart, started, cur, q, dq, nid, trc, hist>>
     ELSE StepFrom(Head(q)[1], Head(q)[2], [q |-> Tail(q), dq |-> dq, nid |-> nid], log, TRUE)

(* posts, deferral, recall and scribbles made from outside a step *)
External(ef) ==
  /\ Queued
  /\ LET r == ApplyEff([q |-> q, dq |-> dq, nid |-> nid], ef)
     IN /\ q' = r.q /\ dq' = r.dq /\ nid' = r.nid
        /\ res' = IF ef[1] = "recall" THEN r.mark[2] ELSE ""
        /\ rtc' = IF (started /\ Instr) \/ ~started THEN rtc \o MarkLines(r.mark) ELSE rtc
        /\ alog' = <<>> /\ did' = 0 /\ liveS' = <<>> /\ liveT' = <<>>
        /\ UNCHANGED <<chart, started, cur, full, trc, hist>>

(* C22: queries answer from the active path and change nothing the chart can observe *)
IsIn(X, log) ==
  /\ started /\ X \in States \cup {0}       \* 0: chart.top, which encloses every state
  /\ res' = IF Encl(chart.par, X, cur) THEN "T" ELSE "F"
  /\ rtc' = IF Instr THEN rtc \o LogLines(log) ELSE rtc
  /\ alog' = <<>> /\ did' = 0 /\ liveS' = <<>> /\ liveT' = <<>>
  /\ UNCHANGED <<chart, started, cur, q, dq, nid, full, trc, hist>>

ChildOf(P) == LET up == Up(chart.par, cur)
                  i  == IF P = 0 THEN Len(up) + 1 ELSE CHOOSE k \in 1..Len(up) : up[k] = P
              IN IF i = 1 THEN cur ELSE up[i - 1]         \* the child of top is the outermost active state
ChildState(P, log) ==
  /\ started /\ P \in States \cup {0}
  /\ res' = IF P = 0 \/ P \in SeqSet(Up(chart.par, cur)) THEN ToString(ChildOf(P)) ELSE "raise"
  /\ rtc' = IF Instr THEN rtc \o LogLines(log) ELSE rtc
  /\ alog' = <<>> /\ did' = 0 /\ liveS' = <<>> /\ liveT' = <<>>
  /\ UNCHANGED <<chart, started, cur, q, dq, nid, full, trc, hist>>

(* complete_circuit(): next_rtc until the queue is empty; the steps are separate NextRtc actions, this is the return *)
CircuitEnd ==
  /\ Queued /\ res' = "" /\ alog' = <<>> /\ did' = 0 /\ liveS' = <<>> /\ liveT' = <<>>
  /\ UNCHANGED <<chart, started, cur, q, dq, nid, rtc, full, trc, hist>>

ClearSpy ==
  /\ Queued /\ full' = <<>> /\ res' = "" /\ alog' = <<>> /\ did' = 0 /\ liveS' = <<>> /\ liveT' = <<>>
  /\ UNCHANGED <<chart, started, cur, q, dq, nid, rtc, trc, hist>>
ClearTrace ==
  /\ Queued /\ trc' = <<>> /\ res' = "" /\ alog' = <<>> /\ did' = 0 /\ liveS' = <<>> /\ liveT' = <<>>
  /\ UNCHANGED <<chart, started, cur, q, dq, nid, rtc, full, hist>>

----------------------------------------------------------------------------
(* Properties of the design, checked by TLC on all small charts (HsmMC.tla) *)

(* replaying a step's exits/entries against the active path: an exit must leave the    *)
(* innermost active state, an entry must enter a child of the innermost active state   *)
RECURSIVE Replay(_, _)      \* <<0>> (not a path: 0 is top) when a call does not fit
Replay(active, calls) ==
  IF calls = <<>> THEN active
  ELSE LET c == Head(calls) IN
    IF c[1] = "EXIT_SIGNAL"
      THEN IF active # <<>> /\ active[Len(active)] = c[2] THEN Replay(SubSeq(active, 1, Len(active) - 1), Tail(calls))
           ELSE <<0>>
    ELSE IF c[1] = "ENTRY_SIGNAL"
      THEN IF chart.par[c[2]] = (IF active = <<>> THEN 0 ELSE active[Len(active)]) THEN Replay(Append(active, c[2]), Tail(calls))
           ELSE <<0>>
    ELSE IF c[1] = "INIT_SIGNAL"
      THEN IF active # <<>> /\ active[Len(active)] = c[2] THEN Replay(active, Tail(calls)) ELSE <<0>>
    ELSE Replay(active, Tail(calls))

(* UML order (C01, C03): every step's action log is well nested and ends on Path(cur') *)
StepWellNested == (res' \notin {"raise", "fault"}) => \/ Replay(Path(chart.par, cur), alog') = Path(chart.par, cur')
                                                      \/ Replay(<<>>, alog') = Path(chart.par, cur')       \* start_at: entered from top, nothing exited
WellNested == [][StepWellNested]_vars

(* C02: a step (did' # 0: an event was dispatched) that is not a transition runs no entry/exit/init and stays put *)
NoActionUnlessTran ==
  [][(cur' = cur /\ started /\ did' # 0) => \/ \A i \in 1..Len(alog') : alog'[i][1] \notin {"ENTRY_SIGNAL", "EXIT_SIGNAL"}
                                \/ \E i \in 1..Len(alog') : alog'[i][1] = "EXIT_SIGNAL" /\ alog'[i][2] = cur]_vars

RestsInLeafOfInit == started /\ res \notin {"raise", "fault"} => chart.init[cur] = 0      \* rests where no initial transition is left
QueuesBounded == Len(q) <= chart.cap /\ Len(dq) <= chart.cap             \* C16
Ids(s) == {s[i][2] : i \in 1..Len(s)}
NoDup(s) == \A i, j \in 1..Len(s) : i # j => s[i] # s[j]
AtMostOnce == NoDup(hist)                                                 \* C14
QueueIdsDistinct == NoDup([i \in 1..Len(q) |-> q[i][2]]) /\ Ids(q) \cap Ids(dq) = {}
DeferredNotDispatched == \A i \in 1..Len(dq) : \A j \in 1..Len(hist) : hist[j] # dq[i][2]   \* C15
DispatchedWasFront == [][(did' # 0 /\ Queued /\ q # <<>> /\ res' \in {"T"}) => did' = Head(q)[2]]_vars   \* C14
TraceEndsInCur == (started /\ Instr /\ trc # <<>> /\ res \notin {"raise", "fault"}) => trc[Len(trc)][3] = Name(cur)     \* C20
RingsBounded == Len(full) <= chart.spy_ring /\ Len(trc) <= chart.trc_ring
=============================================================================
