#!/bin/sh
# usage: tools/confirm_mutant.sh <worktree with the change applied and _seeded/>  -> prints demo/test results
W=$1
cd $W || exit 2
/venv/bin/python _seeded/demo.py > /tmp/confirm_demo1.out 2>&1; d1=$?
git apply -R _seeded/patch.diff || { echo "cannot revert"; exit 2; }
/venv/bin/python _seeded/demo.py > /tmp/confirm_demo0.out 2>&1; d0=$?
git apply _seeded/patch.diff
REPO_DIR=$W /verif/tools/baseline.sh /tmp/confirm_$(basename $W).xml > /tmp/confirm_bl.out 2>&1
echo "$(basename $W): demo_with_change=$d1 demo_without=$d0 $(head -1 /tmp/confirm_bl.out) $(grep -c MISSING /tmp/confirm_bl.out) missing: $(grep MISSING /tmp/confirm_bl.out | tr '\n' ' ')"
