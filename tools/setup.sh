#!/bin/sh
# Offline setup: nothing to build; verify the tools the checks rely on are present and the specs parse.
set -e
cd /verif
test -x /venv/bin/python
java -version >/dev/null 2>&1
mkdir -p .work evidence replays
cd spec
for m in Tree Hsm HsmMC HsmAlgo LockingDeque AO AOSeq Fabric FabricMC Timers Signals SignalsInv Singleton SingletonInv TSA TSAInv TimersInv System SystemMC; do
  java -cp /opt/veriftools/tla/tla2tools.jar:/opt/veriftools/tla/CommunityModules-deps.jar tla2sany.SANY $m.tla >/dev/null 2>&1 || { echo "SANY failed on $m"; exit 1; }
done
echo setup ok
