#!/venv/bin/python
# Regenerates /verif/MANIFEST.json from the table below and the registered checks.
import json, os, sys
HERE = os.path.dirname(os.path.dirname(os.path.abspath(__file__)))
sys.path.insert(0, HERE)
from checks import registry

BASELINE = "cd /repo && env -u MIROS_VERIF /venv/bin/python -m pytest -ra -q -p no:cacheprovider --timeout=900 --continue-on-collection-errors"

SEQ_NOTE = ("Trusted: TLC, the chart generator's independent call log, CPython. Charts are well-formed (DESIGN 6); "
            "the TLC result on HsmAlgo is claimed for the code only while the call-for-call replay of TLC-generated behaviours agrees.")

T = {
  "C01": ("model_checking", "3.2, 4 C01",
          "TLC proves the transcription of dispatch/trans_ (HsmAlgo.tla) equal to the tree-defined reference semantics for all trees "
          "up to N states and deep spines, the transcription is replayed call-for-call into the real code, and thousands of recorded "
          "executions of real dispatch on random deep charts are validated by TLC against Hsm.tla (exit/entry/init order, final state).",
          "TLC model checking of HsmAlgo.tla vs Tree.tla + TLC trace validation (HsmTrace.tla) of recorded real executions"),
  "C02": ("model_checking", "4 C02",
          "TLC checks the bubbling/no-action rules of Hsm.tla on all small charts; recorded real executions (offers, guard fall-backs, "
          "handled/ignored steps) are validated by TLC against the same actions.",
          "TLC model checking of Hsm.tla (HsmMC) + TLC trace validation of recorded real executions"),
  "C03": ("model_checking", "4 C03",
          "TLC proves the transcription of init() equal to the reference start semantics for all trees up to N states; recorded "
          "start_at executions with deep initial-transition chains are validated by TLC.",
          "TLC model checking of HsmAlgo.tla (start mode) + TLC trace validation"),
  "C14": ("model_checking", "4 C14", "Hsm.tla's deque model with posts from handlers is model-checked (AtMostOnce, DispatchedWasFront) and "
          "recorded executions of post/next_rtc sequences on real HsmWithQueues are validated op by op (queue contents, ids dispatched).",
          "TLC model checking of Hsm.tla + TLC trace validation"),
  "C15": ("model_checking", "4 C15", "defer/recall actions of Hsm.tla model-checked (DeferredNotDispatched) and validated on recorded executions "
          "(recall result, queue/defer-queue contents after every op).", "TLC model checking of Hsm.tla + TLC trace validation"),
  "C19": ("model_checking", "4 C19", "The spy a step must show is a function (in Hsm.tla) of the handler calls the processor actually made, "
          "taken from the generated handlers' independent log; TLC compares it with spy_rtc()/spy() after every recorded op, ring included.",
          "TLC trace validation against Hsm.tla spy model"),
  "C20": ("model_checking", "4 C20", "Trace records are prescribed by Hsm.tla (one per transition, none otherwise, ring); TLC checks "
          "TraceEndsInCur on all small charts and validates recorded executions.", "TLC model checking of Hsm.tla + TLC trace validation"),
  "C21": ("model_checking", "4 C21", "Live spy/trace deliveries are prescribed per op by Hsm.tla independently of the clock; recorded executions "
          "under fine, coarse, constant and backward clocks are validated by TLC.", "TLC trace validation against Hsm.tla live-output model"),
  "C22": ("model_checking", "4 C22", "IsIn/ChildState actions of Hsm.tla (QueriesPure checked by TLC) validated on recorded executions: result, "
          "no visible handler call, unchanged state, and unchanged behaviour of the following steps.",
          "TLC model checking of Hsm.tla + TLC trace validation"),
  "C23": ("model_checking", "4 C23", "state_name/state_fn/current_state() compared with Hsm.tla's cur after start and every step on the sequential hosts; "
          "on the active-object host (named and anonymous objects, composite start state, under controlled schedules) AOTrace.tla checks what the "
          "object says about itself when start_at has returned and when it has come to rest.",
          "TLC trace validation against Hsm.tla and AOTrace.tla (NameAfterStart / NameAtRest)"),
}

B_NOTE = ("Trusted: TLC, the deterministic scheduler and primitive shims of harness B (a single C-level container operation is atomic; "
          "pre-emption only between such operations), CPython. The TLC result on the fine-grained model is claimed for the code only while "
          "TLC-generated behaviours replay step for step.")
T.update({
  "C04": ("model_checking", "4 C04",
          "LockingDeque.tla (one label per primitive operation) is model-checked exhaustively for the repaired protocol (no lost wake-up, at most once, "
          "order/nothing lost outside the overflow regime); its behaviours are imposed step by step on the real threads; and thousands of executions of the "
          "real ActiveObject under random, PCT and counterexample-guided schedules are validated by TLC against AO.tla. The whole system (several objects, "
          "fabric deliveries, timed posts, stop) is specified at queue level in System.tla, model-checked (SystemMC.tla: order, nothing dispatched more "
          "often than queued, eventual dispatch under fairness) and recorded whole-system executions are validated against the same actions (SystemTrace.tla).",
          "TLC model checking of LockingDeque.tla and SystemMC.tla + schedule replay into the real code + TLC trace validation (AOTrace.tla, SystemTrace.tla)"),
  "C05": ("model_checking", "4 C05",
          "TLC checks PostersFinish and Quiescence of LockingDeque.tla under weak fairness; real executions with a fair (round-robin) suffix must reach "
          "quiescence with every post returned, validated by TLC (NoProgress / PostBlocked clauses).",
          "TLC liveness checking under fairness + fair-suffix schedules of the real code validated by TLC"),
  "C16": ("model_checking", "4 C16",
          "AOSeq.tla is model-checked over all short operation sequences (bounded, token per event, new event kept); recorded operation sequences on the "
          "real LockingDeque and on queued charts with capacity 1-3 are validated by TLC.",
          "TLC model checking of AOSeq.tla + TLC trace validation (AOSeqTrace.tla, HsmTrace.tla)"),
  "C17": ("model_checking", "4 C17",
          "The same chart table is built by hand-written text, template+registry, Factory and exec'd to_code text (also mixed: some states hand-written, "
          "the others generated and nested under or around them); every build's recorded execution is "
          "validated by TLC against the one Hsm.tla behaviour (callback calls, entries/exits seen through the spy, queues, trace, final state).",
          "TLC trace validation of four builds against Hsm.tla"),
  "C18": ("model_checking", "4 C18",
          "The same chart and events run under 10 configurations (host x decorator x live flags x clock; un-decorated states may carry a decorator "
          "of the user's own; active objects named or anonymous); each recorded execution is validated by TLC "
          "against the same Hsm.tla behaviour, and the independent action logs are compared across configurations.",
          "TLC trace validation per configuration + cross-configuration comparison"),
  "C24": ("model_checking", "4 C24",
          "Charts with one malformed initial transition or None-returning handler: Hsm.tla prescribes HsmTopologyException at the op that reaches the "
          "fault; recorded executions (with a call-count watchdog turning a hang into an outcome) are validated by TLC.",
          "TLC trace validation with fault injection"),
})

T.update({
  "C06": ("model_checking", "4 C06",
          "Fabric.tla (registry, owed/delivered publications) is model-checked by FabricMC.tla over all short call sequences with overlapping publishers and "
          "lagging delivery threads; executions of the real ActiveFabric (distinct-but-equal client queues, repeated subscriptions, start/stop/clear) "
          "under random, PCT and lagging schedules are validated event by event by TLC (FabricTrace.tla).",
          "TLC model checking of Fabric.tla + TLC trace validation of real executions under controlled schedules"),
  "C08": ("model_checking", "4 C08",
          "Fabric.tla demands, at every get of a delivery thread, the waiting event of least priority number and, among equals, publish order "
          "(happens-before of the publish calls); validated on real executions where delivery threads lag behind bursts of publications.",
          "TLC trace validation against the stable-priority-queue action of Fabric.tla"),
  "C13": ("model_checking", "4 C13",
          "FabricMC.tla checks OneThreadPerKind for all start/stop/clear sequences; on real executions TLC checks the number of live delivery "
          "threads after every event (also when a start() fails half way because a thread cannot be started), is_alive() answers, stop() really "
          "ending both threads, and delivery after restart.",
          "TLC model checking of Fabric.tla + TLC trace validation (thread counts observed by the scheduler)"),
  "C07": ("model_checking", "4 C07",
          "Real active objects in generated configurations (decorated or not, instrumented or not, subscribe before/after start, from a handler or "
          "another thread, publish before/after start, other subscribers present) run under controlled schedules; PubSubTrace.tla decides for every "
          "publication made after the system settled whether it reached every subscriber's chart exactly once per kind - also while another "
          "subscriber is being stopped and a delivery thread is slow.",
          "TLC trace validation of real multi-object executions against PubSubTrace.tla"),
  "C09": ("model_checking", "4 C09",
          "Same executions as C07; at every delivery into an active object's queue TLC checks the position of the delivered event in the queue "
          "content observed right after the operation: front for lifo subscriptions, back for fifo (PubSubTrace.tla), and the same executions are "
          "validated against System.tla, whose Put action demands the end of the queue that the delivering thread's kind names.",
          "TLC trace validation (queue position clause of PubSubTrace.tla; Put/WrongEnd of SystemTrace.tla)"),
  "C10": ("model_checking", "4 C10",
          "TimerTrace.tla prescribes, in virtual integer time, the instant and queue end of every post of a timed source and the number of posts due "
          "by the horizon; real post_fifo/post_lifo(period, times, deferred) sources run under the scheduler's virtual clock and every post is checked, "
          "also in executions where injected delays make threads slow (never early, late by at most the injected delay); queue ends are checked against System.tla too.",
          "TLC trace validation in virtual time against TimerTrace.tla and SystemTrace.tla"),
  "C11": ("model_checking", "4 C11",
          "Timers.tla model-checks the timer/canceller protocol (no post after the cancel returned; no deadlock; termination) and 'no post after the cancel "
          "returned' is proved with TLAPS for any number of sources (TimersProof.tla, re-checked by tlapm in every run); real cancel_event / "
          "cancel_events calls with ids and names rebuilt from text, racing the timer threads, are validated by TimerTrace.tla (no post after the "
          "cancel returned, the other sources post exactly what is due), including a second thread that cancels by name while the first one is starting "
          "a source of that name (either order of the two calls is accepted; a later cancellation must silence the source).",
          "TLC model checking of Timers.tla + TLAPS proof for any number of sources + TLC trace validation of real executions"),
  "C12": ("model_checking", "4 C12",
          "stop() from another thread and from a handler, racing timer threads and posters: after it returns TLC checks on the recorded execution "
          "that the object's thread ended, nothing more is dispatched, none of its sources posts, and the other objects and the fabric keep running; "
          "System.tla's StopRet / NoStepAfterStop (model-checked in SystemMC.tla) are validated on the same executions at queue level.",
          "TLC model checking of Timers.tla and SystemMC.tla + TLAPS proof (TimersProof.tla) + TLC trace validation (TimerTrace.tla, SystemTrace.tla)"),
  "C31": ("model_checking", "4 C31",
          "With a small capacity of tracked sources, TimerTrace.tla prescribes which timed posts must be rejected and that a rejected source never "
          "posts (deferred or not) while tracked ones keep posting; validated on real executions under controlled schedules.",
          "TLC trace validation against TimerTrace.tla"),
})

U_NOTE = ("Trusted: TLC, the deterministic scheduler of harness B with pre-emption at every operation on the shared slot / dictionary / lock "
          "(a C-level container operation is atomic), CPython.")
T.update({
  "C25": ("model_checking", "4 C25",
          "Signals.tla (registry append at the grain of single dictionary operations) is model-checked for the locked protocol and its four invariants are "
          "proved with TLAPS for any number of threads and registrations (SignalsProof.tla, re-checked by tlapm in every run); real concurrent uses of a "
          "fresh registry (append, attribute access, Event(name), Event(number), name_for_signal, is_inner_signal) under random/PCT schedules and a "
          "systematic pre-emption-bounded exploration of all two-operation pairs are validated by TLC (one-to-one, stable, positive, no error).",
          "TLC model checking of Signals.tla + TLAPS proof for any number of threads + TLC trace validation (SignalsTrace.tla) of real executions under controlled schedules"),
  "C26": ("other", "4 C26, 7",
          "The registry half of loads(dumps(e)) (same name; this process's number, registering if new) is decided by the TLA+ registry model over recorded "
          "round trips with generated names and JSON payloads; the payload half is an equality of canonical JSON texts evaluated by TLC on logged fields.",
          "TLC trace validation (RoundTripTrace.tla); payload fidelity is a logged-text equality"),
  "C27": ("model_checking", "4 C27",
          "TSA.tla (descriptor protocol at the grain of lock operations and shared-field accesses) is model-checked: no foreign release, no deadlock, lock "
          "free at the end, serial final value - and 'no foreign release, lock free at the end' is proved with TLAPS for any number of threads and any "
          "programs (TSAProof.tla, re-checked by tlapm in every run); real threads running reads/assignments/augmented assignments under controlled schedules (random, PCT, "
          "systematic for all two-statement pairs) are validated by TLC, which computes the set of serial outcomes itself.",
          "TLC model checking of TSA.tla + TLAPS proof for any number of threads + TLC trace validation (TSATrace.tla) with serializability computed in TLA+"),
  "C28": ("other", "4 C28, 7",
          "A grammar of 110 statement forms (reads in expressions and all six comparisons, augmented assignments to other variables and to the attribute "
          "for 12 operators with spacing variants, assignments, right-hand sides that call a helper which itself updates the attribute, updates of an item of a container the attribute holds, the _lock form) is executed on real objects; TLC evaluates on each recorded result that no "
          "lock is held, nothing was raised and values equal those of plain attributes.",
          "grammar enumeration executed on the real descriptor, verdicts by TLC (TSATrace.tla)"),
  "C29": ("model_checking", "4 C29",
          "Histories of new / shallow-copy / assign / augmented-assign / read over objects of three classes (one with value equality) are replayed on real "
          "objects; TSATrace.tla keeps the per-object map and checks every read.",
          "TLC trace validation against a per-instance map"),
  "C30": ("model_checking", "4 C30",
          "Singleton.tla is model-checked (one instance, same object for all, no deadlock) and, for any number of threads, the same two properties are "
          "proved with TLAPS from an inductive invariant (SingletonProof.tla, re-checked by tlapm in every run); on the real SingletonDecorator all interleavings of two concurrent "
          "first requests (and pre-emption-bounded ones of three) are enumerated for the five declared singleton classes and validated by TLC; "
          "for 'the life of the process', histories of fabric start/stop/clear/subscribe/publish calls are validated by FabricTrace.tla, whose clause "
          "NotSingle demands that every singleton still yields the object it yielded at first.",
          "TLC model checking of Singleton.tla + TLAPS proof for any number of threads + exhaustive schedule enumeration of the real code validated by TLC + TLC trace validation (FabricTrace.tla)"),
  "C32": ("other", "4 C32, 7",
          "TraceText.tla defines Norm and the elementary edits and shows by evaluation over all short texts that equal Norm coincides with 'differ only in "
          "timestamps, blank lines, surrounding whitespace'; TLC exports the universe, each text is rendered with real trace() bodies (whitespace as spaces, tabs and mixes) and fed to the real stripped().",
          "TLA+-defined equivalence + TLC-enumerated cases run through the real function"),
})

NOT_YET ="no check built yet in this round (work in progress; see DESIGN.md 4 for the planned model)"


def main():
  props = [json.loads(l)["id"] for l in open(os.path.join(HERE, "properties.jsonl"))]
  checks, na = [], []
  for p in props:
    if p in registry.CHECKS and p in T:
      level, ref, text, tech = T[p]
      checks.append({
        "property_id": p,
        "quick_cmd": "./check %s --tier quick" % p,
        "thorough_cmd": "./check %s --tier thorough" % p,
        "evidence_file": "/verif/evidence/%s.json" % p,
        "replay_cmd_template": "./check %s --replay {path}" % p,
        "engine": "tlc+harness",
        "level_claimed": {"category": level, "text": text, "design_ref": ref},
        "level_note": NOTES.get(p, SEQ_NOTE),
        "technique": tech,
      })
    else:
      na.append({"property_id": p, "reason": NA.get(p, NOT_YET)})
  m = {
    "version": 1,
    "setup_cmd": "cd /verif && ./tools/setup.sh",
    "hooks": {"guard": "MIROS_VERIF", "enable": "no source hooks: the harness substitutes module-level names of miros at run time "
              "(Thread/Queue/deque/time/datetime shims) and generates the state functions it observes",
              "baseline_off_cmd": BASELINE, "source_commits": [], "add_only": True},
    "engines": [
      {"name": "tlc+harness", "path": "/verif/check", "serves_properties": [c["property_id"] for c in checks],
       "kind_free_text": "TLA+ specifications in /verif/spec checked by TLC; Python harnesses replay TLC behaviours into miros and record "
                         "miros executions that TLC validates against the trace specifications"}],
    "checks": checks,
    "not_applicable": na,
    "notes": "See DESIGN.md. Exit codes: 0 held, 1 VIOLATION, 2 machinery failure.",
  }
  with open(os.path.join(HERE, "MANIFEST.json"), "w") as f:
    json.dump(m, f, indent=1)
  print("MANIFEST: %d checks, %d not_applicable" % (len(checks), len(na)))


NOTES = {p: B_NOTE for p in ("C04", "C05", "C16", "C06", "C07", "C08", "C09", "C10", "C11", "C12", "C13", "C31")}
NOTES.update({p: U_NOTE for p in ("C25", "C27", "C30")})
NOTES.update({"C26": "Trusted: TLC, json of the standard library for canonical texts.", "C28": "Trusted: TLC, CPython's inspect source-line lookup.", "C29": "Trusted: TLC.", "C32": "Trusted: TLC; the renderer of harness/textdrive.py."})
NA = {}

if __name__ == "__main__":
  main()
