#!/bin/sh
# usage: tools/confirm_tests.sh <worktree> : baseline suite in the worktree; tests missing from the stable set are re-run alone (up to 4 times: timing-flaky under load)
W=$1
REPO_DIR=$W /verif/tools/baseline.sh /tmp/ct_$(basename $W).xml > /tmp/ct_$(basename $W).out 2>&1
miss=$(grep MISSING /tmp/ct_$(basename $W).out | awk '{print $2}')
still=""
for t in $miss; do
  f=$(echo $t | sed 's/::.*//; s/\./\//g').py; n=$(echo $t | sed 's/.*:://')
  ok=0
  for k in 1 2 3 4; do
    (cd $W && /venv/bin/python -m pytest -q -p no:cacheprovider --timeout=900 "$f::$n" >/dev/null 2>&1) && { ok=1; break; }
  done
  [ $ok = 1 ] || still="$still $t"
done
echo "$(basename $W): $(head -1 /tmp/ct_$(basename $W).out); flaky-then-passed: $(echo $miss | wc -w); still failing:${still:- none}"
