#!/bin/sh
# Runs the repository's pinned test suite (guard off) and compares with BASELINE.json stable_pass.
OUT=${1:-/tmp/baseline_junit.xml}
cd ${REPO_DIR:-/repo} && env -u MIROS_VERIF /venv/bin/python -m pytest -ra -q -p no:cacheprovider --timeout=900 --continue-on-collection-errors --junitxml=$OUT > ${OUT}.log 2>&1
/venv/bin/python - "$OUT" <<'PY'
import sys, json, xml.etree.ElementTree as ET
base = json.load(open('/root/.vp/BASELINE.json'))
want = set(base['stable_pass'])
got = set()
for tc in ET.parse(sys.argv[1]).getroot().iter('testcase'):
  if not any(c.tag in ('failure','error','skipped') for c in tc):
    got.add(tc.get('classname') + '::' + tc.get('name'))
missing = sorted(want - got)
print("baseline: %d/%d stable tests pass" % (len(want & got), len(want)))
for m in missing: print("  MISSING", m)
sys.exit(1 if missing else 0)
PY
