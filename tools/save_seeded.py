#!/venv/bin/python
# usage: tools/save_seeded.py <worktree> <id> <caught_by or ""> <note>
import sys, json, os, shutil
w, sid, caught, note = sys.argv[1], sys.argv[2], sys.argv[3], sys.argv[4]
d = os.path.join("/verif/seeded", sid)
os.makedirs(d, exist_ok=True)
for f in ("patch.diff", "demo.py"):
  shutil.copy(os.path.join(w, "_seeded", f), os.path.join(d, f))
try:
  meta = json.load(open(os.path.join(w, "_seeded", "meta.json")))
except Exception:
  meta = {}
meta.update({"id": sid, "caught_by": [c for c in caught.split(",") if c], "confirmed": note,
             "how_to_rerun": "git -C /repo apply /verif/seeded/%s/patch.diff && (cd /verif && ./check <property> --tier quick); git -C /repo checkout -- ." % sid})
json.dump(meta, open(os.path.join(d, "meta.json"), "w"), indent=1)
print("saved", d)
