#!/bin/sh
# usage: tools/try_mutant_wt.sh <patch.diff> <Cxx> [<Cyy> ...]
# Like try_mutant.sh but leaves /repo alone: applies the change in a scratch worktree of /repo's HEAD and points the
# checks at it with VERIF_REPO (so several changes can be tried at once).  Evidence of these runs goes to .work/ (VERIF_SCRATCH_EVIDENCE),
# the committed evidence/ always describes /repo itself.
P=$(readlink -f $1); shift
W=/tmp/try/$(basename $(dirname $P))_$$
mkdir -p /tmp/try
git -C /repo worktree add --detach $W HEAD >/dev/null 2>&1 || { echo "cannot create worktree"; exit 2; }
git -C $W apply "$P" || { echo "patch does not apply"; git -C /repo worktree remove --force $W; exit 2; }
cd /verif
for c in "$@"; do
  VERIF_SCRATCH_EVIDENCE=1 VERIF_REPO=$W ./check $c --tier quick > /tmp/try_$c.$$.out 2>&1; rc=$?
  echo "== $(basename $(dirname $P)) $c rc=$rc $(grep -c VIOLATION /tmp/try_$c.$$.out) violation lines; $(grep -E '^C[0-9]+ (ok|FAIL)' /tmp/try_$c.$$.out | cut -c1-120)"
  grep -m2 -E "VIOLATION|MACHINERY" /tmp/try_$c.$$.out | cut -c1-300
  rm -f /tmp/try_$c.$$.out
done
git -C /repo worktree remove --force $W
