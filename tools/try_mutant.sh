#!/bin/sh
# usage: tools/try_mutant.sh <patch.diff> <Cxx> [<Cyy> ...] : apply a seeded change to /repo, run the quick checks, undo it
P=$1; shift
cd /repo || exit 2
git diff --quiet || { echo "repo not clean"; exit 2; }
git apply "$P" || { echo "patch does not apply"; exit 2; }
cd /verif
for c in "$@"; do
  ./check $c --tier quick > /tmp/try_$c.out 2>&1; rc=$?
  echo "== $c rc=$rc $(grep -c VIOLATION /tmp/try_$c.out) violation lines; $(grep -E '^C[0-9]+ (ok|FAIL)' /tmp/try_$c.out | cut -c1-160)"
  grep -m2 -E "VIOLATION|MACHINERY" /tmp/try_$c.out | cut -c1-260
done
git -C /repo checkout -- . 
